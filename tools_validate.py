#!/usr/bin/env python3
# validates MANIFEST.json and every evidence file against the schemas (development aid)
import json, sys, glob, jsonschema
m = json.load(open('/verif/MANIFEST.json'))
jsonschema.validate(m, json.load(open('/root/.vp/MANIFEST.schema.json')))
print('MANIFEST ok:', len(m['checks']), 'checks,', len(m.get('not_applicable', [])), 'n/a')
es = json.load(open('/root/.vp/EVIDENCE.schema.json'))
for f in sorted(glob.glob('/verif/evidence/*.json')):
    ev = json.load(open(f))
    jsonschema.validate(ev, es)
    c = ev['coverage']
    print(f, 'ok', c.get('obligations'), c.get('discharged'), ev['wall_s'])
ids = [json.loads(l)['id'] for l in open('/verif/properties.jsonl')]
claimed = {c['property_id'] for c in m['checks']}
na = {c['property_id'] for c in m.get('not_applicable', [])}
missing = [i for i in ids if i not in claimed and i not in na]
both = claimed & na
print('unaccounted:', missing, 'both:', sorted(both))

#!/usr/bin/env python3
"""Regenerates /verif/MANIFEST.json from manifest_meta.json (per-property texts)."""
import json, subprocess
meta = json.load(open('/verif/manifest_meta.json'))
ids = [json.loads(l)['id'] for l in open('/verif/properties.jsonl')]
hooks = subprocess.run(['git', '-C', '/repo', 'log', '--format=%H %s'], capture_output=True, text=True).stdout.strip().split('\n')
hook_commits = [l.split()[0] for l in hooks if 'verif hooks' in l or 'uncommitted hook changes' in l]
checks, na = [], []
for i in ids:
    m = meta.get(i, {})
    if m.get('claim'):
        checks.append({
            "property_id": i,
            "quick_cmd": f"./bin/govc check --property {i} --tier quick",
            "thorough_cmd": f"./bin/govc check --property {i} --tier thorough",
            "evidence_file": f"/verif/evidence/{i}.json",
            "replay_cmd_template": "./bin/govc replay {path}",
            "engine": "govc",
            "level_claimed": {"category": m.get('category', 'proof'), "text": m['text'], "design_ref": m.get('design_ref', 'DESIGN.md §9 ' + i)},
            "level_note": m['note'],
            "technique": m.get('technique', 'contract-based deductive verification: requires/ensures/loop invariants on the real functions, VCs generated from go/ssa by govc, discharged by z3/cvc5'),
        })
    else:
        na.append({"property_id": i, "reason": m.get('reason', 'not claimed in this revision: contracts not yet written')})
man = {
    "version": 1,
    "setup_cmd": "cd /verif/govc && GOFLAGS=-mod=mod GOPROXY=off GOSUMDB=off GOTOOLCHAIN=local go build -o ../bin/govc .",
    "hooks": {
        "guard": "verif",
        "enable": "contract files zz_verif_contracts.go carry //go:build verif; govc loads /repo with -tags=verif (go build -tags verif ./... compiles them to nothing)",
        "baseline_off_cmd": "cd /repo && go test -mod=mod -json -vet=off -count=1 -timeout 25m ./...",
        "source_commits": hook_commits,
        "add_only": True,
    },
    "engines": [{"name": "govc", "path": "/verif/govc", "serves_properties": [c['property_id'] for c in checks],
                 "kind_free_text": "contract-based deductive verifier for Go written for this task: weakest-precondition style VC generation over go/ssa of the working tree, contracts in //@ comment files behind build tag verif, SMT portfolio z3 4.8.12 / z3 5.1.0 / cvc5 1.0"}],
    "checks": checks,
    "not_applicable": na,
    "notes": "See DESIGN.md. Every check reloads /repo's working tree, regenerates all obligations and discharges them; nothing is cached between runs.",
}
json.dump(man, open('/verif/MANIFEST.json', 'w'), indent=1)
print(len(checks), 'checks', len(na), 'not applicable')

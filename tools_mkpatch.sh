#!/bin/bash
# usage: tools_mkpatch.sh <name> <property> <expected-obligation-class-or-empty> <file> <perl-substitution>
# creates /verif/selftest/<name>.patch by applying the substitution to a scratch copy of /repo
set -e
name=$1; prop=$2; expect=$3; file=$4; subst=$5
d=$(mktemp -d /tmp/mkpatch_XXXX)
mkdir -p $d/a/$(dirname $file) $d/b/$(dirname $file)
cp /repo/$file $d/a/$file; cp /repo/$file $d/b/$file
perl -0pi -e "$subst" $d/b/$file
if cmp -s $d/a/$file $d/b/$file; then echo "substitution changed nothing"; rm -rf $d; exit 1; fi
{ echo "# property: $prop"; [ -n "$expect" ] && echo "# expect: $expect"; (cd $d && diff -u a/$file b/$file || true); } > /verif/selftest/$name.patch
rm -rf $d
echo "wrote /verif/selftest/$name.patch"

package main

import (
	"fmt"
	"os"
	"sort"
	"strings"
	"time"
)

// cmdVerify: development driver. govc verify [--func substr] [--dump dir] [--timeout s] pkg...
func cmdVerify(args []string) int {
	var pkgs []string
	filter := ""
	dump := ""
	timeout := 10
	verbose := false
	for i := 0; i < len(args); i++ {
		switch args[i] {
		case "--func":
			i++
			filter = args[i]
		case "--dump":
			i++
			dump = args[i]
		case "--timeout":
			i++
			fmt.Sscan(args[i], &timeout)
		case "-v":
			verbose = true
		default:
			pkgs = append(pkgs, args[i])
		}
	}
	t0 := time.Now()
	db, err := loadAllSpecs(verifDir)
	if err != nil {
		fmt.Fprintln(os.Stderr, "spec load:", err)
		return 2
	}
	prog, err := loadProgram(pkgs)
	if err != nil {
		fmt.Fprintln(os.Stderr, err)
		return 2
	}
	fmt.Fprintf(os.Stderr, "loaded in %v\n", time.Since(t0))
	var names []string
	for n, c := range db.Contracts {
		if c.Trusted {
			continue
		}
		if filter != "" && !strings.Contains(n, filter) {
			continue
		}
		if _, ok := prog.Funcs[n]; !ok {
			continue
		}
		names = append(names, n)
	}
	sort.Strings(names)
	var results []*FuncResult
	for _, n := range names {
		results = append(results, verifyFunction(prog, db, db.Contracts[n]))
	}
	for n, lm := range db.Lemmas {
		if filter != "" && !strings.Contains("lemma:"+n, filter) {
			continue
		}
		results = append(results, verifyLemma(prog, db, lm))
	}
	discharge(results, timeout, false, 12)
	bad := 0
	for _, r := range results {
		if r.Err != "" {
			fmt.Printf("ERROR %s: %s\n", r.Name, r.Err)
			bad++
			continue
		}
		for _, o := range r.Obligations {
			ok := o.Result == "unsat"
			if o.ExpectSat {
				ok = o.Result != "unsat" && o.Result != "error"
			}
			status := "ok  "
			if !ok {
				status = "FAIL"
				if o.Soft {
					status = "soft"
				} else {
					bad++
				}
			}
			if !ok || verbose {
				fmt.Printf("%s %-8s %-10s %5dms %s   <%s>\n", status, o.Result, o.Solver, o.Ms, o.Name, o.Src)
			}
			if dump != "" && (!ok || verbose) {
				os.MkdirAll(dump, 0o755)
				fn := dump + "/" + strings.NewReplacer("/", "_", "(", "", ")", "", "*", "", "#", "_", ":", "_").Replace(o.Name) + ".smt2"
				os.WriteFile(fn, []byte(o.Script+"\n; ---- output\n; "+strings.ReplaceAll(o.Model, "\n", "\n; ")), 0o644)
			}
		}
		if verbose && r.VC != nil {
			for _, a := range r.VC.abstracted {
				fmt.Println("   abstracted:", a)
			}
		}
	}
	fmt.Fprintf(os.Stderr, "%d functions, %d problems, %v\n", len(results), bad, time.Since(t0))
	if bad > 0 {
		return 1
	}
	return 0
}

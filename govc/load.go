package main

import (
	"fmt"
	"go/types"
	"os"
	"sort"
	"strings"

	"golang.org/x/tools/go/packages"
	"golang.org/x/tools/go/ssa"
	"golang.org/x/tools/go/ssa/ssautil"
)

var repoDir = envOr("GOVC_REPO", "/repo")
const repoMod = "github.com/pokt-network/pocket-core"

// Program is the loaded SSA program plus lookup tables.
type Program struct {
	Prog  *ssa.Program
	Pkgs  []*packages.Package
	Funcs map[string]*ssa.Function // canonical name -> function
}

func loadEnv() []string {
	env := os.Environ()
	env = append(env, "GOFLAGS=-mod=mod", "GOPROXY=off", "GOSUMDB=off", "GOTOOLCHAIN=local")
	return env
}

// loadProgram loads the given package patterns (relative to /repo) with the
// verif tag on and builds SSA for the whole dependency cone.
func loadProgram(patterns []string) (*Program, error) {
	cfg := &packages.Config{
		Mode:       packages.LoadAllSyntax,
		Dir:        repoDir,
		Env:        loadEnv(),
		BuildFlags: []string{"-tags=verif"},
	}
	pkgs, err := packages.Load(cfg, patterns...)
	if err != nil {
		return nil, err
	}
	nerr := 0
	packages.Visit(pkgs, nil, func(p *packages.Package) {
		for _, e := range p.Errors {
			if nerr < 10 {
				fmt.Fprintf(os.Stderr, "load error: %v\n", e)
			}
			nerr++
		}
	})
	if nerr > 0 {
		return nil, fmt.Errorf("%d package load errors", nerr)
	}
	prog, _ := ssautil.AllPackages(pkgs, ssa.GlobalDebug|ssa.InstantiateGenerics)
	prog.Build()
	p := &Program{Prog: prog, Pkgs: pkgs, Funcs: map[string]*ssa.Function{}}
	for fn := range ssautil.AllFunctions(prog) {
		if fn.Synthetic != "" && fn.Blocks == nil {
			continue
		}
		p.Funcs[canonName(fn)] = fn
	}
	return p, nil
}

// canonName gives the contract-file name of a function:
//
//	pkgpath.Func, pkgpath.(T).Method, pkgpath.(*T).Method, parent$1 for closures.
//
// pkgpath is shortened by dropping the repository module prefix.
func canonName(fn *ssa.Function) string {
	if fn.Parent() != nil {
		return canonName(fn.Parent()) + "$" + strings.TrimPrefix(fn.Name(), fn.Parent().Name()+"$")
	}
	if recv := fn.Signature.Recv(); recv != nil {
		t := recv.Type()
		ptr := ""
		if pt, ok := t.(*types.Pointer); ok {
			t = pt.Elem()
			ptr = "*"
		}
		if nt, ok := t.(*types.Named); ok {
			pk := ""
			if nt.Obj().Pkg() != nil {
				pk = shortPkg(nt.Obj().Pkg().Path()) + "."
			}
			return pk + "(" + ptr + nt.Obj().Name() + ")." + fn.Name()
		}
		return "(" + t.String() + ")." + fn.Name()
	}
	if fn.Pkg != nil {
		return shortPkg(fn.Pkg.Pkg.Path()) + "." + fn.Name()
	}
	if fn.Object() != nil && fn.Object().Pkg() != nil {
		return shortPkg(fn.Object().Pkg().Path()) + "." + fn.Name()
	}
	return fn.String()
}

func shortPkg(p string) string {
	if p == repoMod {
		return "."
	}
	return strings.TrimPrefix(p, repoMod+"/")
}

// ifaceMethodName is the contract name for an interface method invoke.
func ifaceMethodName(recv types.Type, m *types.Func) string {
	t := recv
	if nt, ok := t.(*types.Named); ok {
		pk := ""
		if nt.Obj().Pkg() != nil {
			pk = shortPkg(nt.Obj().Pkg().Path()) + "."
		}
		return pk + "(" + nt.Obj().Name() + ")." + m.Name()
	}
	return "(" + t.String() + ")." + m.Name()
}

func (p *Program) findFuncs(sub string) []string {
	var out []string
	for n := range p.Funcs {
		if strings.Contains(n, sub) {
			out = append(out, n)
		}
	}
	sort.Strings(out)
	return out
}

func dumpFunc(fn *ssa.Function) {
	fn.WriteTo(os.Stdout)
}

func envOr(k, d string) string {
	if v := os.Getenv(k); v != "" {
		return v
	}
	return d
}

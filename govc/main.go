package main

import (
	"fmt"
	"os"
)

func usage() {
	fmt.Fprintln(os.Stderr, `usage:
  govc dump <pkg-pattern> <func-substring>     print SSA
  govc check --property Cnn [--tier quick|thorough]
  govc verify <pkg-pattern>... [--func substr] verify all contracts in packages (development)
  govc selftest [--property Cnn]
  govc replay <file>`)
	os.Exit(2)
}

func main() {
	if len(os.Args) < 2 {
		usage()
	}
	switch os.Args[1] {
	case "dump":
		if len(os.Args) < 4 {
			usage()
		}
		p, err := loadProgram([]string{os.Args[2]})
		if err != nil {
			fmt.Fprintln(os.Stderr, err)
			os.Exit(2)
		}
		for _, n := range p.findFuncs(os.Args[3]) {
			fmt.Println("=====", n)
			dumpFunc(p.Funcs[n])
		}
	case "check":
		os.Exit(cmdCheck(os.Args[2:]))
	case "verify":
		os.Exit(cmdVerify(os.Args[2:]))
	case "selftest":
		os.Exit(cmdSelftest(os.Args[2:]))
	case "replay":
		os.Exit(cmdReplay(os.Args[2:]))
	default:
		usage()
	}
}

package main

import (
	"fmt"
	"go/constant"
	"go/token"
	"go/types"
	"sort"
	"strings"

	"golang.org/x/tools/go/ssa"
)

// Bit-vector mode (contract flag `bitvector`): for loop-free functions whose values are all
// fixed-width integers and booleans (bit tricks such as nextPowerOfTwo), the whole function and
// its contract are translated into the SMT theory of fixed-size bit-vectors with Go's exact
// wrap-around, shift and comparison semantics. The harness is loop-free over full-domain symbolic
// inputs, so a discharged obligation is a complete proof for the stated precondition (not a
// bounded check). Spec operators available in this mode: + - * == != < <= > >= && || ==> !,
// integer literals, parameters, `result`, and bvand(a,b) bvor(a,b) bvxor(a,b) shl(a,k) shr(a,k).

type bvVal struct {
	t      string
	w      int  // 0 = Bool
	signed bool
}

type bvCtx struct {
	fn    *ssa.Function
	defs  []string
	vals  map[ssa.Value]bvVal
	n     int
	sizes types.Sizes
}

func (c *bvCtx) width(t types.Type) (int, bool, bool) {
	b, ok := t.Underlying().(*types.Basic)
	if !ok {
		return 0, false, false
	}
	if b.Info()&types.IsBoolean != 0 {
		return 0, false, true
	}
	if b.Info()&types.IsInteger == 0 {
		return 0, false, false
	}
	w := int(c.sizes.Sizeof(b)) * 8
	return w, b.Info()&types.IsUnsigned == 0, true
}

func bvLit(v string, w int) string {
	// v: decimal, possibly negative
	if strings.HasPrefix(v, "-") {
		return fmt.Sprintf("(bvneg (_ bv%s %d))", v[1:], w)
	}
	return fmt.Sprintf("(_ bv%s %d)", v, w)
}

func (c *bvCtx) def(name string, v bvVal) bvVal {
	c.n++
	sym := fmt.Sprintf("%s!%d", name, c.n)
	so := "Bool"
	if v.w > 0 {
		so = fmt.Sprintf("(_ BitVec %d)", v.w)
	}
	c.defs = append(c.defs, fmt.Sprintf("(define-fun %s () %s %s)", sym, so, v.t))
	return bvVal{sym, v.w, v.signed}
}

func (c *bvCtx) val(v ssa.Value) bvVal {
	if k, ok := v.(*ssa.Const); ok {
		w, sg, ok := c.width(k.Type())
		if !ok {
			unsupported("bitvector mode: constant of type %s", k.Type())
		}
		if w == 0 {
			return bvVal{fmt.Sprint(constant.BoolVal(k.Value)), 0, false}
		}
		return bvVal{bvLit(constant.ToInt(k.Value).ExactString(), w), w, sg}
	}
	x, ok := c.vals[v]
	if !ok {
		unsupported("bitvector mode: value %s (%T) not translated", v.Name(), v)
	}
	return x
}

func (c *bvCtx) binop(op token.Token, x, y bvVal) bvVal {
	cmp := func(u, s string) bvVal {
		o := u
		if x.signed {
			o = s
		}
		return bvVal{fmt.Sprintf("(%s %s %s)", o, x.t, y.t), 0, false}
	}
	ar := func(o string) bvVal { return bvVal{fmt.Sprintf("(%s %s %s)", o, x.t, y.t), x.w, x.signed} }
	if x.w == 0 {
		switch op {
		case token.EQL:
			return bvVal{fmt.Sprintf("(= %s %s)", x.t, y.t), 0, false}
		case token.NEQ:
			return bvVal{fmt.Sprintf("(not (= %s %s))", x.t, y.t), 0, false}
		case token.AND, token.LAND:
			return bvVal{fmt.Sprintf("(and %s %s)", x.t, y.t), 0, false}
		case token.OR, token.LOR:
			return bvVal{fmt.Sprintf("(or %s %s)", x.t, y.t), 0, false}
		}
		unsupported("bitvector mode: boolean operator %s", op)
	}
	// shifts: the count may have a different width; Go gives 0 (or sign fill) for counts >= width,
	// which is what bvshl / bvlshr / bvashr do once the count is brought to the same width
	if op == token.SHL || op == token.SHR {
		cnt := y.t
		if y.w < x.w {
			cnt = fmt.Sprintf("((_ zero_extend %d) %s)", x.w-y.w, y.t)
		} else if y.w > x.w {
			// counts that do not fit are >= width anyway: saturate
			cnt = fmt.Sprintf("(ite (bvuge %s %s) %s ((_ extract %d 0) %s))", y.t, bvLit(fmt.Sprint(x.w), y.w), bvLit(fmt.Sprint(x.w), x.w), x.w-1, y.t)
		}
		o := "bvshl"
		if op == token.SHR {
			o = "bvlshr"
			if x.signed {
				o = "bvashr"
			}
		}
		return bvVal{fmt.Sprintf("(%s %s %s)", o, x.t, cnt), x.w, x.signed}
	}
	switch op {
	case token.ADD:
		return ar("bvadd")
	case token.SUB:
		return ar("bvsub")
	case token.MUL:
		return ar("bvmul")
	case token.QUO:
		if x.signed {
			return ar("bvsdiv")
		}
		return ar("bvudiv")
	case token.REM:
		if x.signed {
			return ar("bvsrem")
		}
		return ar("bvurem")
	case token.AND:
		return ar("bvand")
	case token.OR:
		return ar("bvor")
	case token.XOR:
		return ar("bvxor")
	case token.AND_NOT:
		return bvVal{fmt.Sprintf("(bvand %s (bvnot %s))", x.t, y.t), x.w, x.signed}
	case token.EQL:
		return bvVal{fmt.Sprintf("(= %s %s)", x.t, y.t), 0, false}
	case token.NEQ:
		return bvVal{fmt.Sprintf("(not (= %s %s))", x.t, y.t), 0, false}
	case token.LSS:
		return cmp("bvult", "bvslt")
	case token.LEQ:
		return cmp("bvule", "bvsle")
	case token.GTR:
		return cmp("bvugt", "bvsgt")
	case token.GEQ:
		return cmp("bvuge", "bvsge")
	}
	unsupported("bitvector mode: operator %s", op)
	return bvVal{}
}

// bvSpec compiles a spec expression to a bit-vector term. want: width expected for literals (0 = infer).
func (c *bvCtx) bvSpec(e SExpr, names map[string]bvVal, want int, wantSigned bool) bvVal {
	switch n := e.(type) {
	case *SIdent:
		if v, ok := names[n.Name]; ok {
			return v
		}
		if n.Name == "true" || n.Name == "false" {
			return bvVal{n.Name, 0, false}
		}
		specFail("bitvector mode: unknown name %s", n.Name)
	case *SBool:
		return bvVal{fmt.Sprint(n.Val), 0, false}
	case *SInt:
		w := want
		if w == 0 {
			w = 64
		}
		return bvVal{bvLit(n.Val, w), w, wantSigned}
	case *SUnary:
		x := c.bvSpec(n.X, names, want, wantSigned)
		switch n.Op {
		case "!":
			return bvVal{fmt.Sprintf("(not %s)", x.t), 0, false}
		case "-":
			return bvVal{fmt.Sprintf("(bvneg %s)", x.t), x.w, x.signed}
		}
	case *SBinary:
		switch n.Op {
		case "&&", "||", "==>", "<==>":
			x := c.bvSpec(n.X, names, 0, false)
			y := c.bvSpec(n.Y, names, 0, false)
			o := map[string]string{"&&": "and", "||": "or", "==>": "=>", "<==>": "="}[n.Op]
			return bvVal{fmt.Sprintf("(%s %s %s)", o, x.t, y.t), 0, false}
		}
		// arithmetic / comparison: literals take the width of the other side
		_, xl := n.X.(*SInt)
		var x, y bvVal
		if xl {
			y = c.bvSpec(n.Y, names, want, wantSigned)
			x = c.bvSpec(n.X, names, y.w, y.signed)
		} else {
			x = c.bvSpec(n.X, names, want, wantSigned)
			y = c.bvSpec(n.Y, names, x.w, x.signed)
		}
		if x.w != y.w {
			specFail("bitvector mode: operands of %s have different widths (%d, %d)", n.Op, x.w, y.w)
		}
		tk := map[string]token.Token{"+": token.ADD, "-": token.SUB, "*": token.MUL, "/": token.QUO, "%": token.REM,
			"==": token.EQL, "!=": token.NEQ, "<": token.LSS, "<=": token.LEQ, ">": token.GTR, ">=": token.GEQ}[n.Op]
		if tk == 0 {
			specFail("bitvector mode: operator %s", n.Op)
		}
		return c.binop(tk, x, y)
	case *SCall:
		if n.Fn == "ispow2" && len(n.Args) == 1 {
			// x is a power of two: exactly one bit set
			x := c.bvSpec(n.Args[0], names, want, wantSigned)
			one := bvLit("1", x.w)
			zero := bvLit("0", x.w)
			return bvVal{fmt.Sprintf("(and (not (= %s %s)) (= (bvand %s (bvsub %s %s)) %s))", x.t, zero, x.t, x.t, one, zero), 0, false}
		}
		tk := map[string]token.Token{"bvand": token.AND, "bvor": token.OR, "bvxor": token.XOR, "shl": token.SHL, "shr": token.SHR}[n.Fn]
		if tk == 0 || len(n.Args) != 2 {
			specFail("bitvector mode: function %s", n.Fn)
		}
		x := c.bvSpec(n.Args[0], names, want, wantSigned)
		y := c.bvSpec(n.Args[1], names, x.w, x.signed)
		return c.binop(tk, x, y)
	}
	specFail("bitvector mode: expression form not supported: %s", e)
	return bvVal{}
}

func verifyBV(prog *Program, db *SpecDB, con *Contract) (res *FuncResult) {
	res = &FuncResult{Name: con.Name, Contract: con}
	fn := prog.Funcs[con.Name]
	if fn == nil {
		res.Err = "function not found in the current tree"
		return
	}
	defer func() {
		if r := recover(); r != nil {
			switch e := r.(type) {
			case unsupportedErr:
				res.Err = "unsupported: " + e.msg
			case specErr:
				res.Err = "spec error: " + e.msg
			default:
				panic(r)
			}
		}
	}()
	c := &bvCtx{fn: fn, vals: map[ssa.Value]bvVal{}, sizes: types.SizesFor("gc", "amd64")}
	names := map[string]bvVal{}
	var decls []string
	for _, p := range fn.Params {
		w, sg, ok := c.width(p.Type())
		if !ok {
			unsupported("bitvector mode: parameter %s of type %s", p.Name(), p.Type())
		}
		sym := "p_" + p.Name()
		so := "Bool"
		if w > 0 {
			so = fmt.Sprintf("(_ BitVec %d)", w)
		}
		decls = append(decls, fmt.Sprintf("(declare-const %s %s)", sym, so))
		c.vals[p] = bvVal{sym, w, sg}
		names[p.Name()] = c.vals[p]
	}
	// blocks in reverse post-order; loops are not supported in this mode
	order := rpo(fn)
	idx := map[*ssa.BasicBlock]int{}
	for i, b := range order {
		idx[b] = i
	}
	pc := map[*ssa.BasicBlock]string{}
	edge := map[[2]*ssa.BasicBlock]string{}
	type ret struct {
		pc  string
		res []bvVal
	}
	var rets []ret
	var divs []string
	for _, b := range order {
		// path condition of the block
		if b == fn.Blocks[0] {
			pc[b] = "true"
		} else {
			var ins []string
			for _, p := range b.Preds {
				if idx[p] >= idx[b] {
					unsupported("bitvector mode: loop in %s", con.Name)
				}
				ins = append(ins, edge[[2]*ssa.BasicBlock{p, b}])
			}
			t := "false"
			if len(ins) == 1 {
				t = ins[0]
			} else if len(ins) > 1 {
				t = "(or " + strings.Join(ins, " ") + ")"
			}
			pc[b] = c.def("pc", bvVal{t, 0, false}).t
		}
		for _, instr := range b.Instrs {
			switch v := instr.(type) {
			case *ssa.DebugRef:
			case *ssa.Phi:
				w, sg, ok := c.width(v.Type())
				if !ok {
					unsupported("bitvector mode: phi of type %s", v.Type())
				}
				t := c.val(v.Edges[len(v.Edges)-1]).t
				for i := len(v.Edges) - 2; i >= 0; i-- {
					t = fmt.Sprintf("(ite %s %s %s)", edge[[2]*ssa.BasicBlock{b.Preds[i], b}], c.val(v.Edges[i]).t, t)
				}
				c.vals[v] = c.def("phi", bvVal{t, w, sg})
			case *ssa.BinOp:
				x, y := c.val(v.X), c.val(v.Y)
				if (v.Op == token.QUO || v.Op == token.REM) && x.w > 0 {
					divs = append(divs, fmt.Sprintf("(and %s (= %s %s))", pc[b], y.t, bvLit("0", y.w)))
				}
				r := c.binop(v.Op, x, y)
				if w, sg, ok := c.width(v.Type()); ok && w > 0 {
					r.signed = sg
				}
				c.vals[v] = c.def("t", r)
			case *ssa.UnOp:
				x := c.val(v.X)
				switch v.Op {
				case token.SUB:
					c.vals[v] = c.def("t", bvVal{fmt.Sprintf("(bvneg %s)", x.t), x.w, x.signed})
				case token.XOR:
					c.vals[v] = c.def("t", bvVal{fmt.Sprintf("(bvnot %s)", x.t), x.w, x.signed})
				case token.NOT:
					c.vals[v] = c.def("t", bvVal{fmt.Sprintf("(not %s)", x.t), 0, false})
				default:
					unsupported("bitvector mode: unary %s", v.Op)
				}
			case *ssa.Convert, *ssa.ChangeType:
				var src ssa.Value
				if cv, ok := v.(*ssa.Convert); ok {
					src = cv.X
				} else {
					src = v.(*ssa.ChangeType).X
				}
				x := c.val(src)
				w, sg, ok := c.width(v.(ssa.Value).Type())
				if !ok || w == 0 || x.w == 0 {
					unsupported("bitvector mode: conversion to %s", v.(ssa.Value).Type())
				}
				t := x.t
				switch {
				case w < x.w:
					t = fmt.Sprintf("((_ extract %d 0) %s)", w-1, x.t)
				case w > x.w && x.signed:
					t = fmt.Sprintf("((_ sign_extend %d) %s)", w-x.w, x.t)
				case w > x.w:
					t = fmt.Sprintf("((_ zero_extend %d) %s)", w-x.w, x.t)
				}
				c.vals[v.(ssa.Value)] = c.def("cv", bvVal{t, w, sg})
			case *ssa.If:
				cnd := c.val(v.Cond)
				edge[[2]*ssa.BasicBlock{b, b.Succs[0]}] = c.def("e", bvVal{fmt.Sprintf("(and %s %s)", pc[b], cnd.t), 0, false}).t
				edge[[2]*ssa.BasicBlock{b, b.Succs[1]}] = c.def("e", bvVal{fmt.Sprintf("(and %s (not %s))", pc[b], cnd.t), 0, false}).t
			case *ssa.Jump:
				edge[[2]*ssa.BasicBlock{b, b.Succs[0]}] = pc[b]
			case *ssa.Return:
				var rs []bvVal
				for _, r := range v.Results {
					rs = append(rs, c.val(r))
				}
				rets = append(rets, ret{pc[b], rs})
			default:
				unsupported("bitvector mode: instruction %T in %s", instr, con.Name)
			}
		}
	}
	pre := "true"
	{
		var rq []string
		for _, cl := range con.Requires {
			rq = append(rq, c.bvSpec(cl.Expr, names, 0, false).t)
		}
		if len(rq) > 0 {
			pre = "(and " + strings.Join(rq, " ") + ")"
		}
	}
	header := "(set-option :produce-models true)\n(set-logic QF_BV)\n" + strings.Join(decls, "\n") + "\n"
	mk := func(name, kind, goalNeg, src string, expectSat bool) {
		body := header + strings.Join(c.defs, "\n") + "\n(assert " + goalNeg + ")\n(check-sat)\n(get-model)\n"
		res.Obligations = append(res.Obligations, &Obligation{Name: name, Kind: kind, Props: con.Props, Src: src, ExpectSat: expectSat, RawScript: body, Fn: con.Name})
	}
	mk(con.Name+"/requires-sat", "cover", pre, "vacuity guard", true)
	rn := resultNames(fn.Signature)
	var anyRet []string
	for k, r := range rets {
		anyRet = append(anyRet, r.pc)
		post := map[string]bvVal{}
		for n, v := range names {
			post[n] = v
		}
		for i, v := range r.res {
			post[rn[i]] = v
			post[fmt.Sprintf("result%d", i)] = v
			if len(r.res) == 1 {
				post["result"] = v
			}
		}
		for i, cl := range con.Ensures {
			label := cl.Label
			if label == "" {
				label = fmt.Sprint(i)
			}
			g := c.bvSpec(cl.Expr, post, 0, false)
			mk(fmt.Sprintf("%s/ensures[%s]/return#%d", con.Name, label, k), "ensures", fmt.Sprintf("(and %s %s (not %s))", pre, r.pc, g.t), cl.Src+"   (bit-vector semantics)", false)
		}
	}
	sort.Strings(divs)
	for i, d := range divs {
		mk(fmt.Sprintf("%s/panic-free@div#%d", con.Name, i), "panic-free", fmt.Sprintf("(and %s %s)", pre, d), "no division by zero", false)
	}
	if len(anyRet) > 0 {
		mk(con.Name+"/cover/any-return", "cover", fmt.Sprintf("(and %s (or %s))", pre, strings.Join(anyRet, " ")), "some return reachable", true)
	}
	res.BV = true
	return
}

func rpo(fn *ssa.Function) []*ssa.BasicBlock {
	seen := map[*ssa.BasicBlock]bool{}
	var post []*ssa.BasicBlock
	var visit func(b *ssa.BasicBlock)
	visit = func(b *ssa.BasicBlock) {
		seen[b] = true
		for _, s := range b.Succs {
			if !seen[s] {
				visit(s)
			}
		}
		post = append(post, b)
	}
	visit(fn.Blocks[0])
	for i, j := 0, len(post)-1; i < j; i, j = i+1, j-1 {
		post[i], post[j] = post[j], post[i]
	}
	return post
}

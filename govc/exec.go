package main

import (
	"os"
	"fmt"
	"go/constant"
	"go/token"
	"go/types"
	"math/big"
	"sort"
	"strings"

	"golang.org/x/tools/go/ssa"
)

type unsupportedErr struct{ msg string }

func unsupported(format string, a ...interface{}) {
	panic(unsupportedErr{fmt.Sprintf(format, a...)})
}

// Loc is an engine-level description of where a pointer value points.
type Loc struct {
	kind  int // locCell locObj locElem
	key   string
	ref   Term
	rootT types.Type // type of the root value (cell type / object type / element type)
	sref  Term
	idx   Term
	path  []pathStep
}

const (
	locCell = iota
	locObj
	locElem
)

type pathStep struct {
	isIdx bool
	field int
	idx   Term
	t     types.Type // container type at this step
}

func (l *Loc) extend(s pathStep) *Loc {
	n := *l
	n.path = append(append([]pathStep{}, l.path...), s)
	return &n
}

type inEdge struct {
	st      *State
	predIdx int
}

type retSite struct {
	st      *State
	results []Term
	block   *ssa.BasicBlock
}

type loopInfo struct {
	header   *ssa.BasicBlock
	body     map[*ssa.BasicBlock]bool
	ordinal  int
	modified map[string]bool
	// freshOnly: heaps the body only extends with objects allocated inside the body
	freshOnly map[string]bool
	havocAll  bool
	known     bool
}

// Frame is one activation of a function being symbolically executed.
type Frame struct {
	vc       *VC
	fn       *ssa.Function
	id       int
	depth    int
	vals     map[ssa.Value]Term
	tuples   map[ssa.Value][]Term
	locs     map[ssa.Value]*Loc
	closures map[ssa.Value]*ssa.MakeClosure
	curInstr ssa.Instruction // instruction being executed (call-site name resolution)
	fnArgCons []*Contract    // contracts of the closures passed as arguments of the call being applied
	in       map[*ssa.BasicBlock][]inEdge
	rets     []retSite
	panics   []Term
	defers   []*ssa.Defer
	contract *Contract
	entry    *State // state at function entry (for old())
	top      bool
	order    []*ssa.BasicBlock
	loops    map[*ssa.BasicBlock]*loopInfo
	cellOK   map[*ssa.Alloc]bool
	cellT    map[string]types.Type // Go type of each local cell (for type facts after a loop havoc)
	freeVars map[*ssa.FreeVar]ssa.Value
	parent   *Frame
	callSeq  int
	retSeq   int
	panicSeq int
	params   []Term
	discovering *ssa.BasicBlock
	discBack []*State
	headerSt map[*ssa.BasicBlock]*State
	rangeOf  map[ssa.Value]*rangeInfo
}

type rangeInfo struct {
	x     ssa.Value
	posKey string
}

func (vc *VC) newFrame(fn *ssa.Function, parent *Frame) *Frame {
	vc.frameID++
	f := &Frame{vc: vc, fn: fn, id: vc.frameID, vals: map[ssa.Value]Term{}, tuples: map[ssa.Value][]Term{},
		locs: map[ssa.Value]*Loc{}, closures: map[ssa.Value]*ssa.MakeClosure{}, in: map[*ssa.BasicBlock][]inEdge{},
		loops: map[*ssa.BasicBlock]*loopInfo{}, cellOK: map[*ssa.Alloc]bool{}, parent: parent,
		headerSt: map[*ssa.BasicBlock]*State{}, rangeOf: map[ssa.Value]*rangeInfo{}}
	if parent != nil {
		f.depth = parent.depth + 1
	}
	f.analyse()
	return f
}

// analyse computes block order, loops and escape information.
func (f *Frame) analyse() {
	fn := f.fn
	if len(fn.Blocks) == 0 {
		return
	}
	// reverse postorder ignoring back edges
	seen := map[*ssa.BasicBlock]bool{}
	var post []*ssa.BasicBlock
	var dfs func(b *ssa.BasicBlock)
	dfs = func(b *ssa.BasicBlock) {
		seen[b] = true
		for _, s := range b.Succs {
			if !seen[s] {
				dfs(s)
			}
		}
		post = append(post, b)
	}
	dfs(fn.Blocks[0])
	for i := len(post) - 1; i >= 0; i-- {
		f.order = append(f.order, post[i])
	}
	// natural loops
	var headers []*ssa.BasicBlock
	for _, b := range f.order {
		for _, s := range b.Succs {
			if s.Dominates(b) {
				li := f.loops[s]
				if li == nil {
					li = &loopInfo{header: s, body: map[*ssa.BasicBlock]bool{s: true}}
					f.loops[s] = li
					headers = append(headers, s)
				}
				// body: nodes that reach b without passing s
				var stack []*ssa.BasicBlock
				if !li.body[b] {
					li.body[b] = true
					stack = append(stack, b)
				}
				for len(stack) > 0 {
					x := stack[len(stack)-1]
					stack = stack[:len(stack)-1]
					for _, p := range x.Preds {
						if !li.body[p] {
							li.body[p] = true
							stack = append(stack, p)
						}
					}
				}
			}
		}
	}
	// loop ordinals in source order of the header's first positioned instruction
	sort.SliceStable(headers, func(i, j int) bool { return blockPos(headers[i]) < blockPos(headers[j]) })
	for i, h := range headers {
		f.loops[h].ordinal = i
	}
	// escape analysis for Allocs
	for _, b := range fn.Blocks {
		for _, ins := range b.Instrs {
			if a, ok := ins.(*ssa.Alloc); ok {
				f.cellOK[a] = !a.Heap && addrUsesOK(a, a)
				if a.Heap {
					// Heap only says "may escape"; recompute with our own rule
					f.cellOK[a] = addrUsesOK(a, a)
				}
			}
		}
	}
}

func blockPos(b *ssa.BasicBlock) token.Pos {
	// loops are ordered by the position of the loop statement: use the
	// smallest valid position found in the header or its body entry
	min := token.Pos(1 << 40)
	for _, ins := range b.Instrs {
		if _, isPhi := ins.(*ssa.Phi); isPhi {
			// a phi carries the position of the variable's DECLARATION, which can precede
			// earlier loops (e.g. an accumulator declared before two loops): not a loop position
			continue
		}
		if p := ins.Pos(); p.IsValid() && p < min {
			min = p
		}
		if d, ok := ins.(*ssa.DebugRef); ok {
			if p := d.Expr.Pos(); p.IsValid() && p < min {
				min = p
			}
		}
	}
	if min == token.Pos(1<<40) {
		// fall back to successors
		for _, s := range b.Succs {
			for _, ins := range s.Instrs {
				if p := ins.Pos(); p.IsValid() && p < min {
					min = p
				}
			}
		}
	}
	return min + token.Pos(b.Index)*0
}

// addrUsesOK reports whether every use of the address v (derived from alloc root)
// is a load, a store to it, or a field/index address with the same property.
func addrUsesOK(v ssa.Value, root *ssa.Alloc) bool {
	refs := v.Referrers()
	if refs == nil {
		return false
	}
	for _, r := range *refs {
		switch u := r.(type) {
		case *ssa.Store:
			if u.Val == v {
				return false
			}
		case *ssa.UnOp:
			if u.Op != token.MUL {
				return false
			}
		case *ssa.FieldAddr:
			if !addrUsesOK(u, root) {
				return false
			}
		case *ssa.IndexAddr:
			if u.X != v || !addrUsesOK(u, root) {
				return false
			}
		case *ssa.DebugRef:
		case *ssa.MakeClosure:
			// captured by a closure that is only deferred or called in place inside this function
			// (its body is executed inline against the same cell): the variable does not escape.
			// A closure that is passed on as a value may be run by other code: escapes.
			if !closureStaysLocal(u) {
				return false
			}
		default:
			return false
		}
	}
	return true
}

func closureStaysLocal(mc *ssa.MakeClosure) bool {
	refs := mc.Referrers()
	if refs == nil {
		return false
	}
	for _, r := range *refs {
		switch u := r.(type) {
		case *ssa.Defer:
			if u.Call.Value != mc {
				return false
			}
			for _, a := range u.Call.Args {
				if a == mc {
					return false
				}
			}
		case *ssa.Call:
			if u.Call.Value != mc {
				return false
			}
			for _, a := range u.Call.Args {
				if a == mc {
					return false
				}
			}
		case *ssa.DebugRef:
		default:
			return false
		}
	}
	return true
}

// ---- values ----------------------------------------------------------------

func (f *Frame) val(v ssa.Value) Term {
	if t, ok := f.vals[v]; ok {
		return t
	}
	switch c := v.(type) {
	case *ssa.Const:
		return f.constTerm(c)
	case *ssa.Global:
		return f.vc.globalRef(c)
	case *ssa.Function:
		name := smtSym("fn:" + canonName(c))
		return f.vc.sorts.namedConst(name, "Func")
	case *ssa.FreeVar:
		if f.freeVars != nil {
			if b, ok := f.freeVars[c]; ok && f.parent != nil {
				return f.parent.val(b)
			}
		}
		t := f.vc.fresh("free_"+c.Name(), f.vc.sorts.sortOf(c.Type()))
		f.vals[v] = t
		return t
	case *ssa.Builtin:
		return f.vc.sorts.namedConst("Func_builtin", "Func")
	}
	if _, isLoc := f.locs[v]; isLoc {
		unsupported("interior pointer %s used as a value in %s", v.Name(), f.fn.Name())
	}
	// value not yet defined (can happen for values defined in unreachable code)
	t := f.vc.fresh("undef_"+v.Name(), f.vc.sorts.sortOf(v.Type()))
	f.vals[v] = t
	return t
}

func (vc *VC) globalRef(g *ssa.Global) Term {
	name := smtSym("gref:" + shortPkg(g.Pkg.Pkg.Path()) + "." + g.Name())
	key := "global:" + name
	if !vc.pureDecl[key] {
		vc.pureDecl[key] = true
		n := 0
		for k := range vc.pureDecl {
			if strings.HasPrefix(k, "global:") {
				n++
			}
		}
		vc.permDecls = append(vc.permDecls, fmt.Sprintf("(define-fun %s () Int (- %d))", name, n))
	}
	return name
}

func (f *Frame) constTerm(c *ssa.Const) Term {
	s := f.vc.sorts
	if c.Value == nil {
		return s.zero(c.Type())
	}
	t := c.Type()
	switch {
	case isBoolType(t):
		if constant.BoolVal(c.Value) {
			return "true"
		}
		return "false"
	case isIntType(t):
		v, ok := new(big.Int).SetString(c.Value.ExactString(), 10)
		if !ok {
			if iv := constant.ToInt(c.Value); iv.Kind() == constant.Int {
				v, _ = new(big.Int).SetString(iv.ExactString(), 10)
			}
		}
		if v == nil {
			unsupported("integer constant %s", c.Value)
		}
		return smtInt(v)
	case isStringType(t):
		return s.strLit(constant.StringVal(c.Value))
	case isFloatType(t):
		name := smtSym("float:" + c.Value.ExactString())
		return s.namedConst(name, s.usort("Float"))
	}
	unsupported("constant of type %s", t)
	return ""
}

func (f *Frame) setVal(v ssa.Value, t Term) {
	f.vals[v] = t
}

// defVal defines an SSA value as a named constant equal to t and assumes its type facts.
func (f *Frame) defVal(v ssa.Value, t Term) Term {
	so := f.vc.sorts.sortOf(v.Type())
	name := f.vc.fresh(fmt.Sprintf("f%d_%s", f.id, v.Name()), so)
	f.vc.asserts = append(f.vc.asserts, fmt.Sprintf("(assert (= %s %s))", name, t))
	f.vals[v] = name
	return name
}

func (f *Frame) freshVal(v ssa.Value, st *State) Term {
	so := f.vc.sorts.sortOf(v.Type())
	name := f.vc.fresh(fmt.Sprintf("f%d_%s", f.id, v.Name()), so)
	f.vals[v] = name
	f.assumeTyped(v.Type(), name, st)
	return name
}

// assumeTyped adds the type facts for a value that came from outside (parameter, load, call result).
func (f *Frame) assumeTyped(t types.Type, x Term, st *State) {
	for _, fact := range f.vc.sorts.typeFacts(t, x, 3) {
		f.vc.assume(fact)
	}
	f.assumeAllocBound(t, x, st, 2)
}

func (f *Frame) assumeAllocBound(t types.Type, x Term, st *State, depth int) {
	if st == nil {
		return
	}
	switch u := t.Underlying().(type) {
	case *types.Pointer, *types.Map, *types.Chan:
		f.vc.assume(fmt.Sprintf("(<= %s %s)", x, f.vc.get(st, "alloc")))
	case *types.Slice:
		f.vc.assume(fmt.Sprintf("(<= (Slice_ref %s) %s)", x, f.vc.get(st, "alloc")))
	case *types.Struct:
		if depth <= 0 {
			return
		}
		for i := 0; i < u.NumFields(); i++ {
			f.assumeAllocBound(u.Field(i).Type(), f.vc.sorts.fieldGet(t, i, x), st, depth-1)
		}
	}
}

// ---- locations ---------------------------------------------------------------

func (f *Frame) cellKey(a *ssa.Alloc) string {
	return fmt.Sprintf("c:%d:%s", f.id, a.Name())
}

func (f *Frame) getLoc(v ssa.Value) *Loc {
	if l, ok := f.locs[v]; ok {
		return l
	}
	if fv, ok := v.(*ssa.FreeVar); ok && f.freeVars != nil && f.parent != nil {
		if b, ok := f.freeVars[fv]; ok {
			return f.parent.getLoc(b)
		}
	}
	pt, ok := v.Type().Underlying().(*types.Pointer)
	if !ok {
		unsupported("getLoc on non-pointer %s", v.Type())
	}
	return &Loc{kind: locObj, ref: f.val(v), rootT: pt.Elem()}
}

func (f *Frame) rootGet(l *Loc, st *State) Term {
	vc := f.vc
	switch l.kind {
	case locCell:
		return vc.get(st, l.key)
	case locObj:
		if at, ok := l.rootT.Underlying().(*types.Array); ok {
			h := vc.heapVar(vc.sorts.elemHeap(at.Elem()))
			return sel(vc.get(st, h), l.ref)
		}
		h := vc.heapVar(vc.sorts.objHeap(l.rootT))
		return sel(vc.get(st, h), l.ref)
	case locElem:
		h := vc.heapVar(vc.sorts.elemHeap(l.rootT))
		return sel(sel(vc.get(st, h), l.sref), l.idx)
	}
	panic("bad loc")
}

func (f *Frame) rootSet(l *Loc, st *State, v Term) {
	vc := f.vc
	switch l.kind {
	case locCell:
		st.vars[l.key] = vc.define("cell", vc.varSort[l.key], v)
	case locObj:
		var h string
		if at, ok := l.rootT.Underlying().(*types.Array); ok {
			h = vc.heapVar(vc.sorts.elemHeap(at.Elem()))
		} else {
			h = vc.heapVar(vc.sorts.objHeap(l.rootT))
		}
		st.vars[h] = vc.define("H", vc.varSort[h], sto(vc.get(st, h), l.ref, v))
		if !vc.isFreshRef(l.ref) {
			vc.noteOldWrite(h)
		}
	case locElem:
		h := vc.heapVar(vc.sorts.elemHeap(l.rootT))
		cur := vc.get(st, h)
		if !vc.isFreshRef(l.sref) {
			vc.noteOldWrite(h)
		}
		st.vars[h] = vc.define("E", vc.varSort[h], sto(cur, l.sref, sto(sel(cur, l.sref), l.idx, v)))
		// Bridging instance of read-over-write, triggered on reads of the NEW heap: it produces the
		// corresponding read of the OLD heap, on which quantified invariants are triggered.
		// (Logically implied by the store; it only helps E-matching.)
		if nh := st.vars[h]; nh != cur && f.discovering == nil {
			vc.assume(fmt.Sprintf("(forall ((p Int) (i Int)) (! (=> (or (not (= p %s)) (not (= i %s))) (= (select (select %s p) i) (select (select %s p) i))) :pattern ((select (select %s p) i))))",
				l.sref, l.idx, nh, cur, nh))
		}
	}
}

func (f *Frame) load(l *Loc, st *State) Term {
	x := f.rootGet(l, st)
	for _, p := range l.path {
		if p.isIdx {
			x = sel(x, p.idx)
		} else {
			x = f.vc.sorts.fieldGet(p.t, p.field, x)
		}
	}
	return x
}

func (f *Frame) store(l *Loc, st *State, v Term) {
	if len(l.path) == 0 {
		f.rootSet(l, st, v)
		return
	}
	root := f.rootGet(l, st)
	if len(l.path) > 0 {
		root = f.vc.define("root", f.sortOfRoot(l), root)
	}
	f.rootSet(l, st, f.update(root, l.path, v))
}

func (f *Frame) sortOfRoot(l *Loc) string {
	return f.vc.sorts.sortOf(l.rootT)
}

func (f *Frame) update(x Term, path []pathStep, v Term) Term {
	if len(path) == 0 {
		return v
	}
	p := path[0]
	if p.isIdx {
		return sto(x, p.idx, f.update(sel(x, p.idx), path[1:], v))
	}
	inner := f.vc.sorts.fieldGet(p.t, p.field, x)
	return f.vc.sorts.fieldSet(p.t, p.field, x, f.update(inner, path[1:], v))
}

// newObject allocates a fresh reference.
func (f *Frame) newRef(st *State) Term {
	vc := f.vc
	cur := vc.get(st, "alloc")
	n := vc.fresh("ref", "Int")
	vc.assume(fmt.Sprintf("(= %s (+ %s 1))", n, cur))
	st.vars["alloc"] = n
	vc.noteFresh(n)
	return n
}

// ---- running -----------------------------------------------------------------

// run executes the blocks in order (restricted to `only` when non-nil).
func (f *Frame) run(only map[*ssa.BasicBlock]bool) {
	for _, b := range f.order {
		if only != nil && !only[b] {
			continue
		}
		f.execBlock(b, only)
	}
}

func (f *Frame) execBlock(b *ssa.BasicBlock, only map[*ssa.BasicBlock]bool) {
	vc := f.vc
	var st *State
	ins := f.in[b]
	li := f.loops[b]
	if li != nil && f.discovering == b {
		// discovery run: header state was prepared by discover()
		st = f.headerSt[b].clone()
		f.havocPhis(b, st)
	} else if li != nil {
		if len(ins) == 0 {
			return
		}
		st = f.enterLoop(b, li, ins)
	} else {
		if len(ins) == 0 {
			if b.Index != 0 || f.headerSt[b] == nil {
				return // unreachable
			}
		}
		if b.Index == 0 && len(b.Preds) == 0 {
			st = f.headerSt[b]
		} else {
			states := make([]*State, len(ins))
			for i, e := range ins {
				states[i] = e.st
			}
			st = vc.merge(states)
			// phis
			for _, instr := range b.Instrs {
				phi, ok := instr.(*ssa.Phi)
				if !ok {
					break
				}
				f.execPhi(phi, ins)
			}
		}
	}
	f.in[b] = nil
	for _, instr := range b.Instrs {
		if _, ok := instr.(*ssa.Phi); ok {
			continue
		}
		if st.pc == "false" {
			break
		}
		f.execInstr(instr, st, b, only)
	}
}

func (f *Frame) execPhi(phi *ssa.Phi, ins []inEdge) {
	vc := f.vc
	if _, isPtr := phi.Type().Underlying().(*types.Pointer); isPtr {
		for _, e := range ins {
			if _, interior := f.locs[phi.Edges[e.predIdx]]; interior {
				unsupported("phi of interior pointers (%s in %s)", phi.Name(), f.fn.Name())
			}
		}
	}
	if len(ins) == 1 {
		f.vals[phi] = f.val(phi.Edges[ins[0].predIdx])
		f.copyAux(phi, phi.Edges[ins[0].predIdx])
		return
	}
	first := f.val(phi.Edges[ins[0].predIdx])
	same := true
	vals := []Term{first}
	for _, e := range ins[1:] {
		v := f.val(phi.Edges[e.predIdx])
		vals = append(vals, v)
		if v != first {
			same = false
		}
	}
	if same {
		f.vals[phi] = first
		return
	}
	t := vals[len(vals)-1]
	for i := len(vals) - 2; i >= 0; i-- {
		t = fmt.Sprintf("(ite %s %s %s)", ins[i].st.pc, vals[i], t)
	}
	so := vc.sorts.sortOf(phi.Type())
	name := vc.fresh(fmt.Sprintf("f%d_%s", f.id, phi.Name()), so)
	vc.asserts = append(vc.asserts, fmt.Sprintf("(assert (= %s %s))", name, t))
	f.vals[phi] = name
}

func (f *Frame) copyAux(dst, src ssa.Value) {
	if c, ok := f.closures[src]; ok {
		f.closures[dst] = c
	}
	if r, ok := f.rangeOf[src]; ok {
		f.rangeOf[dst] = r
	}
}

func (f *Frame) havocPhis(b *ssa.BasicBlock, st *State) {
	for _, instr := range b.Instrs {
		phi, ok := instr.(*ssa.Phi)
		if !ok {
			break
		}
		f.freshVal(phi, st)
	}
}

func predIndex(from, to *ssa.BasicBlock, succIdx int) int {
	first := -1
	count := 0
	for i, p := range to.Preds {
		if p == from {
			if first < 0 {
				first = i
			}
			count++
		}
	}
	if count <= 1 {
		return first
	}
	// both successors of `from` are `to`: the k-th occurrence corresponds to succIdx
	k := 0
	for i, p := range to.Preds {
		if p == from {
			if k == succIdx {
				return i
			}
			k++
		}
	}
	return first
}

// flow sends state st along the edge b -> b.Succs[si].
func (f *Frame) flow(b *ssa.BasicBlock, si int, st *State, only map[*ssa.BasicBlock]bool) {
	to := b.Succs[si]
	pi := predIndex(b, to, si)
	if to.Dominates(b) && f.loops[to] != nil {
		// back edge
		if f.discovering == to {
			f.discBack = append(f.discBack, st)
			return
		}
		if f.discovering != nil {
			// back edge of an inner loop inside a discovery run of an outer one:
			// still record what it modifies, by treating it like the real pass
		}
		f.checkInvariants(to, f.loops[to], st, pi, "preserve")
		return
	}
	if only != nil && !only[to] {
		return
	}
	f.in[to] = append(f.in[to], inEdge{st: st, predIdx: pi})
}

// phiEnv returns the values of the header's phis when arriving over pred index pi.
func (f *Frame) phiEnv(h *ssa.BasicBlock, pi int) map[*ssa.Phi]Term {
	env := map[*ssa.Phi]Term{}
	for _, instr := range h.Instrs {
		phi, ok := instr.(*ssa.Phi)
		if !ok {
			break
		}
		env[phi] = f.val(phi.Edges[pi])
	}
	return env
}

func (f *Frame) loopSpec(li *loopInfo) *LoopSpec {
	if f.contract == nil {
		return nil
	}
	return f.contract.Loops[li.ordinal]
}

// enterLoop handles arrival at a loop header in the real pass.
func (f *Frame) enterLoop(h *ssa.BasicBlock, li *loopInfo, ins []inEdge) *State {
	vc := f.vc
	spec := f.loopSpec(li)
	if spec == nil && !(f.top && f.contract != nil && f.contract.Bounded > 0) {
		unsupported("loop %d in %s has no invariant", li.ordinal, canonName(f.fn))
	}
	if !li.known {
		f.discover(h, li)
	}
	// init obligations per entry edge
	for _, e := range ins {
		f.checkInvariantsAt(h, li, e.st, e.predIdx, "init")
	}
	states := make([]*State, len(ins))
	for i, e := range ins {
		states[i] = e.st
	}
	st := vc.merge(states)
	entryAlloc := vc.get(st, "alloc")
	// havoc what the loop modifies
	if li.havocAll {
		vc.havocAll(st, true)
		for k := range li.modified {
			if strings.HasPrefix(k, "c:") {
				st.vars[k] = vc.fresh("hv", vc.varSort[k])
			}
		}
	} else {
		keys := make([]string, 0, len(li.modified))
		for k := range li.modified {
			keys = append(keys, k)
		}
		sort.Strings(keys)
		for _, k := range keys {
			if k == "alloc" {
				na := vc.fresh("alloc", "Int")
				vc.assume(fmt.Sprintf("(>= %s %s)", na, vc.get(st, "alloc")))
				st.vars[k] = na
				continue
			}
			prev := vc.get(st, k)
			st.vars[k] = vc.fresh("hv", vc.varSort[k])
			if li.freshOnly[k] {
				// objects that existed at loop entry are untouched by the body
				vc.assume(fmt.Sprintf("(forall ((r Int)) (! (=> (<= r %s) (= (select %s r) (select %s r))) :pattern ((select %s r))))",
					entryAlloc, st.vars[k], prev, st.vars[k]))
			}
		}
	}
	// well-formedness of havocked heaps: every reference stored in them is allocated
	for k := range li.modified {
		if _, isCur := st.vars[k]; isCur {
			vc.assumeHeapWF(k, st.vars[k], vc.get(st, "alloc"))
		}
	}
	// havocked local cells keep the invariants of their Go type (0 <= len <= cap, ...)
	for k := range li.modified {
		if t, ok := f.cellT[k]; ok {
			if cur, isCur := st.vars[k]; isCur {
				f.assumeTyped(t, cur, st)
			}
		}
	}
	f.havocPhis(h, st)
	f.headerSt[h] = st.clone()
	// assume invariants
	if spec != nil {
		var invs []Term
		for _, c := range spec.Invariants {
			env := f.invEnv(h, st, nil)
			t := env.evalBool(c.Expr)
			invs = append(invs, t)
		}
		st.pc = vc.define("pc", "Bool", andT(append([]Term{st.pc}, invs...)...))
		if spec.Decreases != nil {
			env := f.invEnv(h, st, nil)
			m := env.evalInt(spec.Decreases.Expr)
			f.headerMeasure(h, vc.define("measure", "Int", m))
		}
	}
	return st
}

var measures = map[string]Term{}

func (f *Frame) headerMeasure(h *ssa.BasicBlock, m Term) {
	measures[fmt.Sprintf("%d:%d", f.id, h.Index)] = m
}

// discover finds the state variables modified by the loop body.
func (f *Frame) discover(h *ssa.BasicBlock, li *loopInfo) {
	vc := f.vc
	snap := vc.snapshot()
	savedDisc, savedBack := f.discovering, f.discBack
	savedIn := f.in
	savedRets, savedPanics := f.rets, f.panics
	f.in = map[*ssa.BasicBlock][]inEdge{}
	f.discovering = h
	f.discBack = nil
	savedFloor, savedOW := vc.freshFloor, vc.oldWrites
	vc.freshFloor, vc.oldWrites = vc.n, map[string]bool{}
	restoreFresh := func() {
		for k := range vc.oldWrites {
			if savedOW == nil {
				savedOW = map[string]bool{}
			}
			savedOW[k] = true
		}
		vc.freshFloor, vc.oldWrites = savedFloor, savedOW
	}
	// all-fresh header state
	st := &State{vars: map[string]Term{}, epoch: vc.newEpoch(), pc: "true"}
	base := map[string]Term{}
	for _, k := range vc.varList {
		c := vc.fresh("dv", vc.varSort[k])
		st.vars[k] = c
		base[k] = c
	}
	st.vars["alloc"] = vc.fresh("dalloc", "Int")
	base["alloc"] = st.vars["alloc"]
	baseEpoch := st.epoch
	f.headerSt[h] = st
	savedLoopSpecInv := f.contract
	func() {
		defer func() {
			if r := recover(); r != nil {
				f.discovering, f.discBack, f.in = savedDisc, savedBack, savedIn
				f.rets, f.panics = savedRets, savedPanics
				vc.restore(snap)
				restoreFresh()
				panic(r)
			}
		}()
		f.run(li.body)
	}()
	_ = savedLoopSpecInv
	li.modified = map[string]bool{}
	for _, bs := range f.discBack {
		if bs.epoch != baseEpoch {
			li.havocAll = true
			if os.Getenv("GOVC_DEBUG") != "" {
				fmt.Fprintf(os.Stderr, "DEBUG %s loop#%d: body changes the epoch (a call havocs all heaps)\n", canonName(f.fn), li.ordinal)
			}
		}
		for k, v := range bs.vars {
			if bv, ok := base[k]; !ok || bv != v {
				li.modified[k] = true
			}
		}
	}
	li.freshOnly = map[string]bool{}
	for k := range li.modified {
		if (strings.HasPrefix(unq(k), "E:") || strings.HasPrefix(unq(k), "H:")) && !vc.oldWrites[k] {
			li.freshOnly[k] = true
		}
	}
	restoreFresh()
	li.known = true
	f.discovering, f.discBack, f.in = savedDisc, savedBack, savedIn
	f.rets, f.panics = savedRets, savedPanics
	vc.restore(snap)
}

func (f *Frame) checkInvariants(h *ssa.BasicBlock, li *loopInfo, st *State, pi int, kind string) {
	if f.discovering != nil {
		return
	}
	f.checkInvariantsAt(h, li, st, pi, kind)
}

func (f *Frame) checkInvariantsAt(h *ssa.BasicBlock, li *loopInfo, st *State, pi int, kind string) {
	vc := f.vc
	spec := f.loopSpec(li)
	if spec == nil || f.discovering != nil {
		return
	}
	phis := f.phiEnv(h, pi)
	for i, c := range spec.Invariants {
		env := f.invEnv(h, st, phis)
		goal := env.evalBool(c.Expr)
		label := c.Label
		if label == "" {
			label = fmt.Sprint(i)
		}
		vc.addObl(&Obligation{
			Name:  fmt.Sprintf("%s/loop#%d/invariant[%s]/%s#%d", canonName(f.fn), li.ordinal, label, kind, pi),
			Kind:  "invariant-" + kind,
			Props: c.Props, PC: st.pc, Goal: goal, Src: c.Src,
		})
	}
	if kind == "preserve" && spec.Decreases != nil {
		m0 := measures[fmt.Sprintf("%d:%d", f.id, h.Index)]
		env := f.invEnv(h, st, phis)
		m1 := env.evalInt(spec.Decreases.Expr)
		vc.addObl(&Obligation{
			Name:  fmt.Sprintf("%s/loop#%d/decreases#%d", canonName(f.fn), li.ordinal, pi),
			Kind:  "decreases",
			Props: spec.Decreases.Props, PC: st.pc,
			Goal: fmt.Sprintf("(and (>= %s 0) (< %s %s))", m0, m1, m0), Src: spec.Decreases.Src,
		})
	}
}

// ---- instructions --------------------------------------------------------------

func (f *Frame) guard(st *State, cond Term) {
	if cond == "true" {
		return
	}
	st.pc = f.vc.define("pc", "Bool", andT(st.pc, cond))
}

// mustHold records an implicit run-time check: under panics_never it is an
// obligation, otherwise the path simply continues under the condition.
func (f *Frame) mustHold(st *State, cond Term, what string) {
	if cond == "true" {
		return
	}
	if f.topContract() != nil && f.topContract().PanicsNever && f.discovering == nil {
		root := f.rootFrame()
		root.panicSeq++
		f.vc.addObl(&Obligation{
			Name: fmt.Sprintf("%s/panic-free@%s#%d", canonName(root.fn), what, root.panicSeq),
			Kind: "panic-free", Props: root.contract.Props, PC: st.pc, Goal: cond, Src: what,
		})
	}
	f.guard(st, cond)
}

func (f *Frame) rootFrame() *Frame {
	r := f
	for r.parent != nil {
		r = r.parent
	}
	return r
}
func (f *Frame) topContract() *Contract { return f.rootFrame().contract }

func (f *Frame) execInstr(instr ssa.Instruction, st *State, b *ssa.BasicBlock, only map[*ssa.BasicBlock]bool) {
	f.curInstr = instr
	vc := f.vc
	S := vc.sorts
	switch v := instr.(type) {
	case *ssa.DebugRef:
		return
	case *ssa.Alloc:
		elT := v.Type().Underlying().(*types.Pointer).Elem()
		if f.cellOK[v] {
			key := f.cellKey(v)
			vc.registerVar(key, S.sortOf(elT))
			if f.cellT == nil {
				f.cellT = map[string]types.Type{}
			}
			f.cellT[key] = elT
			st.vars[key] = S.zero(elT)
			f.locs[v] = &Loc{kind: locCell, key: key, rootT: elT}
			return
		}
		ref := f.newRef(st)
		f.vals[v] = ref
		l := &Loc{kind: locObj, ref: ref, rootT: elT}
		f.rootSet(l, st, S.zero(elT))
	case *ssa.Store:
		l := f.getLoc(v.Addr)
		f.nilCheck(l, st)
		f.store(l, st, f.val(v.Val))
	case *ssa.UnOp:
		f.execUnOp(v, st)
	case *ssa.BinOp:
		f.defVal(v, f.binop(v.Op, v.X, v.Y, v.Type(), st))
	case *ssa.FieldAddr:
		l := f.getLoc(v.X)
		f.nilCheck(l, st)
		pt := v.X.Type().Underlying().(*types.Pointer).Elem()
		f.locs[v] = l.extend(pathStep{field: v.Field, t: pt})
	case *ssa.Field:
		f.defVal(v, S.fieldGet(v.X.Type(), v.Field, f.val(v.X)))
	case *ssa.IndexAddr:
		f.execIndexAddr(v, st)
	case *ssa.Index:
		x := f.val(v.X)
		i := f.val(v.Index)
		switch u := v.X.Type().Underlying().(type) {
		case *types.Array:
			f.mustHold(st, fmt.Sprintf("(and (<= 0 %s) (< %s %d))", i, i, u.Len()), "index")
			f.defVal(v, sel(x, i))
		case *types.Basic: // string
			f.mustHold(st, fmt.Sprintf("(and (<= 0 %s) (< %s (Str_len %s)))", i, i, x), "index")
			t := f.defVal(v, fmt.Sprintf("(Str_at %s %s)", x, i))
			vc.assume(fmt.Sprintf("(and (<= 0 %s) (<= %s 255))", t, t))
		default:
			unsupported("Index on %s", v.X.Type())
		}
	case *ssa.Slice:
		f.execSlice(v, st)
	case *ssa.MakeSlice:
		n := f.val(v.Len)
		c := f.val(v.Cap)
		f.mustHold(st, fmt.Sprintf("(and (<= 0 %s) (<= %s %s))", n, n, c), "makeslice")
		elT := v.Type().Underlying().(*types.Slice).Elem()
		ref := f.newRef(st)
		h := vc.heapVar(S.elemHeap(elT))
		arrSort := "(Array Int " + S.sortOf(elT) + ")"
		st.vars[h] = vc.define("E", vc.varSort[h], sto(vc.get(st, h), ref, fmt.Sprintf("((as const %s) %s)", arrSort, S.zero(elT))))
		f.defVal(v, mkSlice(ref, "0", n, c))
	case *ssa.MakeMap:
		mt := v.Type().Underlying().(*types.Map)
		ref := f.newRef(st)
		dom, _, card := S.mapHeaps(mt)
		dh, ch := vc.heapVar(dom), vc.heapVar(card)
		vc.heapVar(smtSym("Mv:" + typeKey(mt)))
		ks := S.sortOf(mt.Key())
		st.vars[dh] = vc.define("Md", vc.varSort[dh], sto(vc.get(st, dh), ref, fmt.Sprintf("((as const (Array %s Bool)) false)", ks)))
		st.vars[ch] = vc.define("Mn", vc.varSort[ch], sto(vc.get(st, ch), ref, "0"))
		f.vals[v] = ref
	case *ssa.MakeChan:
		f.vals[v] = f.newRef(st)
	case *ssa.MakeInterface:
		box, _ := S.boxFn(v.X.Type())
		f.defVal(v, fmt.Sprintf("(%s %s)", box, f.val(v.X)))
	case *ssa.MakeClosure:
		f.closures[v] = v
		name := smtSym(fmt.Sprintf("closure:%s!%d", canonName(v.Fn.(*ssa.Function)), f.id))
		f.vals[v] = S.namedConst(name, "Func")
	case *ssa.ChangeInterface:
		f.vals[v] = f.val(v.X)
	case *ssa.ChangeType:
		src, dst := f.vc.sorts.sortOf(v.X.Type()), f.vc.sorts.sortOf(v.Type())
		if _, isStruct := v.Type().Underlying().(*types.Struct); isStruct && src != dst {
			// conversion between two named struct types with the same underlying type: each named
			// struct has its own SMT datatype, so the value is rebuilt field by field
			stT := v.Type().Underlying().(*types.Struct)
			x := f.val(v.X)
			var fs []string
			for i := 0; i < stT.NumFields(); i++ {
				fs = append(fs, f.vc.sorts.fieldGet(v.X.Type(), i, x))
			}
			f.defVal(v, f.vc.sorts.mkStruct(v.Type(), fs))
		} else {
			f.vals[v] = f.val(v.X)
			f.copyAux(v, v.X)
		}
	case *ssa.Convert:
		f.execConvert(v, st)
	case *ssa.TypeAssert:
		f.execTypeAssert(v, st)
	case *ssa.Extract:
		tup, ok := f.tuples[v.Tuple]
		if !ok {
			unsupported("extract from unknown tuple %s", v.Tuple.Name())
		}
		f.vals[v] = tup[v.Index]
	case *ssa.Lookup:
		f.execLookup(v, st)
	case *ssa.MapUpdate:
		f.execMapUpdate(v, st)
	case *ssa.Range:
		f.execRange(v, st)
	case *ssa.Next:
		f.execNext(v, st)
	case *ssa.Call:
		f.execCall(v, v.Common(), st)
	case *ssa.Defer:
		f.defers = append(f.defers, v)
	case *ssa.RunDefers:
		for i := len(f.defers) - 1; i >= 0; i-- {
			d := f.defers[i]
			if st.pc == "false" {
				break
			}
			f.execCall(nil, d.Common(), st)
		}
	case *ssa.Go:
		unsupported("go statement in %s", canonName(f.fn))
	case *ssa.Select:
		unsupported("select in %s", canonName(f.fn))
	case *ssa.Send:
		unsupported("channel send in %s", canonName(f.fn))
	case *ssa.SliceToArrayPointer:
		unsupported("slice to array pointer")
	case *ssa.Jump:
		f.flow(b, 0, st, only)
	case *ssa.If:
		c := f.val(v.Cond)
		t := st.clone()
		t.pc = vc.define("pc", "Bool", andT(st.pc, c))
		e := st.clone()
		e.pc = vc.define("pc", "Bool", andT(st.pc, notT(c)))
		f.flow(b, 0, t, only)
		f.flow(b, 1, e, only)
	case *ssa.Return:
		var rs []Term
		for _, r := range v.Results {
			rs = append(rs, f.val(r))
		}
		f.rets = append(f.rets, retSite{st: st, results: rs, block: b})
	case *ssa.Panic:
		if f.topContract() != nil && f.topContract().PanicsNever && f.discovering == nil {
			root := f.rootFrame()
			root.panicSeq++
			vc.addObl(&Obligation{
				Name: fmt.Sprintf("%s/panic-free@panic#%d", canonName(root.fn), root.panicSeq),
				Kind: "panic-free", Props: root.contract.Props, PC: st.pc, Goal: "false", Src: "explicit panic",
			})
		}
		f.panics = append(f.panics, st.pc)
	default:
		unsupported("instruction %T in %s", instr, canonName(f.fn))
	}
}

func (f *Frame) nilCheck(l *Loc, st *State) {
	if l.kind == locObj && len(l.path) == 0 {
		if strings.HasPrefix(l.ref, "|gref:") || strings.HasPrefix(l.ref, "ref!") {
			return
		}
		f.mustHold(st, fmt.Sprintf("(not (= %s 0))", l.ref), "nil-deref")
	}
}

func (f *Frame) execUnOp(v *ssa.UnOp, st *State) {
	vc := f.vc
	switch v.Op {
	case token.MUL:
		l := f.getLoc(v.X)
		f.nilCheck(l, st)
		t := f.defVal(v, f.load(l, st))
		f.assumeTyped(v.Type(), t, f.boundState(l, st))
		if g, ok := v.X.(*ssa.Global); ok {
			vc.applyGlobalSpecs(f, g, t, st)
		}
	case token.NOT:
		f.defVal(v, notT(f.val(v.X)))
	case token.SUB:
		x := f.val(v.X)
		f.defVal(v, f.wrap(v.Type(), "(- "+x+")", st, "neg"))
	case token.XOR:
		x := f.val(v.X)
		if isUnsigned(v.Type()) {
			_, hi, _ := intRange(v.Type().Underlying().(*types.Basic))
			f.defVal(v, fmt.Sprintf("(- %s %s)", smtInt(hi), x))
		} else {
			f.defVal(v, fmt.Sprintf("(- (- %s) 1)", x))
		}
	case token.ARROW:
		f.abstractInstr(v, st, "channel receive")
	default:
		unsupported("unop %s", v.Op)
	}
}

// boundState returns the state whose allocation counter bounds pointers read through l:
// if the heap holding l has not changed since the verified function was entered, the value
// read was already there at entry, so it is older than everything allocated since.
func (f *Frame) boundState(l *Loc, st *State) *State {
	root := f.rootFrame()
	if root.entry == nil {
		return st
	}
	var h string
	switch l.kind {
	case locObj:
		if at, ok := l.rootT.Underlying().(*types.Array); ok {
			h = f.vc.sorts.elemHeap(at.Elem())
		} else {
			h = f.vc.sorts.objHeap(l.rootT)
		}
	case locElem:
		h = f.vc.sorts.elemHeap(l.rootT)
	default:
		return st
	}
	f.vc.heapVar(h)
	if f.vc.get(st, h) == f.vc.get(root.entry, h) {
		return root.entry
	}
	return st
}

func (f *Frame) abstractInstr(v ssa.Value, st *State, what string) {
	f.vc.abstracted = append(f.vc.abstracted, fmt.Sprintf("%s: %s", canonName(f.fn), what))
	if tup, ok := v.Type().(*types.Tuple); ok {
		var ts []Term
		for i := 0; i < tup.Len(); i++ {
			t := f.vc.fresh("abs", f.vc.sorts.sortOf(tup.At(i).Type()))
			f.assumeTyped(tup.At(i).Type(), t, st)
			ts = append(ts, t)
		}
		f.tuples[v] = ts
		return
	}
	f.freshVal(v, st)
}

// wrap applies machine-integer semantics to a mathematical result.
func (f *Frame) wrap(t types.Type, x Term, st *State, what string) Term {
	b, ok := t.Underlying().(*types.Basic)
	if !ok {
		return x
	}
	lo, hi, ok := intRange(b)
	if !ok {
		return x
	}
	if b.Info()&types.IsUnsigned != 0 {
		m := new(big.Int).Add(hi, big.NewInt(1))
		return fmt.Sprintf("(mod %s %s)", x, m.String())
	}
	// signed: treated as mathematical; side obligation that it stays in range
	if f.discovering == nil {
		root := f.rootFrame()
		xs := f.vc.define("arith", "Int", x)
		root.panicSeq++
		f.vc.addObl(&Obligation{
			Name: fmt.Sprintf("%s/no-overflow@%s#%d", canonName(root.fn), what, root.panicSeq),
			Kind: "overflow", Soft: true, PC: st.pc,
			Goal: fmt.Sprintf("(and (<= %s %s) (<= %s %s))", smtInt(lo), xs, xs, smtInt(hi)),
			Src:  "signed " + what + " in " + canonName(f.fn),
		})
		return xs
	}
	return x
}

func pow2(n int64) string {
	return new(big.Int).Lsh(big.NewInt(1), uint(n)).String()
}

func (f *Frame) binop(op token.Token, X, Y ssa.Value, resT types.Type, st *State) Term {
	x, y := f.val(X), f.val(Y)
	xt := X.Type()
	switch op {
	case token.ADD:
		if isStringType(xt) {
			return fmt.Sprintf("(Str_cat %s %s)", x, y)
		}
		if isFloatType(xt) {
			return f.floatOp("add", x, y)
		}
		return f.wrap(resT, "(+ "+x+" "+y+")", st, "add")
	case token.SUB:
		if isFloatType(xt) {
			return f.floatOp("sub", x, y)
		}
		return f.wrap(resT, "(- "+x+" "+y+")", st, "sub")
	case token.MUL:
		if isFloatType(xt) {
			return f.floatOp("mul", x, y)
		}
		return f.wrap(resT, "(* "+x+" "+y+")", st, "mul")
	case token.QUO:
		if isFloatType(xt) {
			return f.floatOp("quo", x, y)
		}
		f.mustHold(st, fmt.Sprintf("(not (= %s 0))", y), "div")
		if isUnsigned(xt) {
			return fmt.Sprintf("(div %s %s)", x, y)
		}
		return f.vc.goDiv(x, y)
	case token.REM:
		f.mustHold(st, fmt.Sprintf("(not (= %s 0))", y), "div")
		if isUnsigned(xt) {
			return fmt.Sprintf("(mod %s %s)", x, y)
		}
		return f.vc.goMod(x, y)
	case token.EQL, token.NEQ:
		var e Term
		if _, isIface := xt.Underlying().(*types.Interface); isIface {
			e = eqT(x, y)
		} else {
			e = eqT(x, y)
		}
		if _, isSlice := xt.Underlying().(*types.Slice); isSlice {
			// only comparison with nil is legal
			other := x
			if c, ok := X.(*ssa.Const); ok && c.Value == nil {
				other = y
			}
			e = fmt.Sprintf("(= (Slice_ref %s) 0)", other)
		}
		if op == token.NEQ {
			return notT(e)
		}
		return e
	case token.LSS, token.LEQ, token.GTR, token.GEQ:
		if isStringType(xt) {
			switch op {
			case token.LSS:
				return fmt.Sprintf("(str_lt %s %s)", x, y)
			case token.GTR:
				return fmt.Sprintf("(str_lt %s %s)", y, x)
			case token.LEQ:
				return fmt.Sprintf("(not (str_lt %s %s))", y, x)
			default:
				return fmt.Sprintf("(not (str_lt %s %s))", x, y)
			}
		}
		if isFloatType(xt) {
			f.vc.sorts.declFun("Float_lt", []string{"Float", "Float"}, "Bool")
			switch op {
			case token.LSS:
				return fmt.Sprintf("(Float_lt %s %s)", x, y)
			case token.GTR:
				return fmt.Sprintf("(Float_lt %s %s)", y, x)
			case token.LEQ:
				return fmt.Sprintf("(not (Float_lt %s %s))", y, x)
			default:
				return fmt.Sprintf("(not (Float_lt %s %s))", x, y)
			}
		}
		m := map[token.Token]string{token.LSS: "<", token.LEQ: "<=", token.GTR: ">", token.GEQ: ">="}
		return fmt.Sprintf("(%s %s %s)", m[op], x, y)
	case token.SHL:
		if c, ok := Y.(*ssa.Const); ok && c.Value != nil {
			if n, ok := constant.Int64Val(constant.ToInt(c.Value)); ok && n >= 0 && n < 256 {
				return f.wrapShift(resT, fmt.Sprintf("(* %s %s)", x, pow2(n)))
			}
		}
		return f.wrapShift(resT, fmt.Sprintf("(shl_u %s %s)", x, y))
	case token.SHR:
		if c, ok := Y.(*ssa.Const); ok && c.Value != nil {
			if n, ok := constant.Int64Val(constant.ToInt(c.Value)); ok && n >= 0 && n < 256 {
				return fmt.Sprintf("(div %s %s)", x, pow2(n))
			}
		}
		return fmt.Sprintf("(shr_u %s %s)", x, y)
	case token.AND:
		if c, ok := Y.(*ssa.Const); ok && c.Value != nil && isUnsigned(xt) {
			if n, ok := constant.Uint64Val(constant.ToInt(c.Value)); ok && n&(n+1) == 0 {
				return fmt.Sprintf("(mod %s %d)", x, n+1)
			}
		}
		return fmt.Sprintf("(bit_and %s %s)", x, y)
	case token.OR:
		return fmt.Sprintf("(bit_or %s %s)", x, y)
	case token.XOR:
		return fmt.Sprintf("(bit_xor %s %s)", x, y)
	case token.AND_NOT:
		return fmt.Sprintf("(bit_andnot %s %s)", x, y)
	}
	unsupported("binop %s", op)
	return ""
}

func (f *Frame) wrapShift(t types.Type, x Term) Term {
	b, ok := t.Underlying().(*types.Basic)
	if !ok {
		return x
	}
	lo, hi, ok := intRange(b)
	if !ok {
		return x
	}
	m := new(big.Int).Add(new(big.Int).Sub(hi, lo), big.NewInt(1))
	if b.Info()&types.IsUnsigned != 0 {
		return fmt.Sprintf("(mod %s %s)", x, m.String())
	}
	// signed wrap: ((x - lo) mod m) + lo
	return fmt.Sprintf("(+ (mod (- %s %s) %s) %s)", x, smtInt(lo), m.String(), smtInt(lo))
}

func (f *Frame) floatOp(name, x, y Term) Term {
	fn := "Float_" + name
	f.vc.sorts.declFun(fn, []string{"Float", "Float"}, "Float")
	return fmt.Sprintf("(%s %s %s)", fn, x, y)
}

func (f *Frame) execIndexAddr(v *ssa.IndexAddr, st *State) {
	i := f.val(v.Index)
	switch u := v.X.Type().Underlying().(type) {
	case *types.Slice:
		s := f.val(v.X)
		f.mustHold(st, fmt.Sprintf("(and (<= 0 %s) (< %s (Slice_len %s)))", i, i, s), "index")
		// Element reads keep the index as the term (+ off i): quantified contract clauses over
		// s[q] are triggered on exactly that shape. Element writes name the index: fewer
		// arithmetic terms inside the updated array keep the store reasoning cheap.
		idx := sidxT(soff(s), i)
		if refs := v.Referrers(); refs != nil {
			for _, r := range *refs {
				if stv, ok := r.(*ssa.Store); ok && stv.Addr == v {
					idx = f.vc.define("idx", "Int", idx)
					break
				}
			}
		}
		f.locs[v] = &Loc{kind: locElem, sref: sref(s), idx: idx, rootT: u.Elem()}
	case *types.Pointer:
		at := u.Elem().Underlying().(*types.Array)
		f.mustHold(st, fmt.Sprintf("(and (<= 0 %s) (< %s %d))", i, i, at.Len()), "index")
		l := f.getLoc(v.X)
		if l.kind == locObj && len(l.path) == 0 {
			// array object lives in the element heap
			f.locs[v] = &Loc{kind: locElem, sref: l.ref, idx: i, rootT: at.Elem()}
			return
		}
		f.locs[v] = l.extend(pathStep{isIdx: true, idx: i, t: u.Elem()})
	default:
		unsupported("IndexAddr on %s", v.X.Type())
	}
}

func (f *Frame) execSlice(v *ssa.Slice, st *State) {
	vc := f.vc
	opt := func(x ssa.Value, def Term) Term {
		if x == nil {
			return def
		}
		return f.val(x)
	}
	switch u := v.X.Type().Underlying().(type) {
	case *types.Slice:
		s := f.val(v.X)
		lo := opt(v.Low, "0")
		hi := opt(v.High, slen(s))
		mx := opt(v.Max, scap(s))
		f.mustHold(st, fmt.Sprintf("(and (<= 0 %s) (<= %s %s) (<= %s %s) (<= %s (Slice_cap %s)))", lo, lo, hi, hi, mx, mx, s), "slice")
		f.defVal(v, mkSlice(sref(s), addT(soff(s), lo), subT(hi, lo), subT(mx, lo)))
	case *types.Basic: // string
		s := f.val(v.X)
		lo := opt(v.Low, "0")
		hi := opt(v.High, "(Str_len "+s+")")
		f.mustHold(st, fmt.Sprintf("(and (<= 0 %s) (<= %s %s) (<= %s (Str_len %s)))", lo, lo, hi, hi, s), "slice")
		vc.sorts.declFun("Str_sub", []string{"Str", "Int", "Int"}, "Str")
		t := f.defVal(v, fmt.Sprintf("(Str_sub %s %s %s)", s, lo, hi))
		vc.assume(fmt.Sprintf("(= (Str_len %s) (- %s %s))", t, hi, lo))
		vc.assume(fmt.Sprintf("(=> (and (= %s 0) (= %s (Str_len %s))) (= %s %s))", lo, hi, s, t, s))
	case *types.Pointer:
		at, ok := u.Elem().Underlying().(*types.Array)
		if !ok {
			unsupported("slice of %s", v.X.Type())
		}
		l := f.getLoc(v.X)
		if !(l.kind == locObj && len(l.path) == 0) {
			unsupported("slice of interior array in %s", canonName(f.fn))
		}
		n := fmt.Sprint(at.Len())
		lo := opt(v.Low, "0")
		hi := opt(v.High, n)
		mx := opt(v.Max, n)
		f.mustHold(st, fmt.Sprintf("(and (<= 0 %s) (<= %s %s) (<= %s %s) (<= %s %s))", lo, lo, hi, hi, mx, mx, n), "slice")
		f.defVal(v, mkSlice(l.ref, lo, subT(hi, lo), subT(mx, lo)))
	default:
		unsupported("slice of %s", v.X.Type())
	}
}

func (f *Frame) execConvert(v *ssa.Convert, st *State) {
	vc := f.vc
	S := vc.sorts
	from, to := v.X.Type(), v.Type()
	x := f.val(v.X)
	switch {
	case isIntType(from) && isIntType(to):
		fb := from.Underlying().(*types.Basic)
		tb := to.Underlying().(*types.Basic)
		flo, fhi, fok := intRange(fb)
		tlo, thi, tok := intRange(tb)
		if !fok || !tok || (flo.Cmp(tlo) >= 0 && fhi.Cmp(thi) <= 0) {
			f.vals[v] = x
			return
		}
		f.defVal(v, f.wrapShift(to, x))
	case isStringType(to) && isByteSlice(from):
		h := vc.heapVar(S.elemHeap(from.Underlying().(*types.Slice).Elem()))
		f.defVal(v, fmt.Sprintf("(Str_of %s)", vc.bseq(sel(vc.get(st, h), sref(x)), soff(x), slen(x))))
	case isByteSlice(to) && isStringType(from):
		elT := to.Underlying().(*types.Slice).Elem()
		ref := f.newRef(st)
		h := vc.heapVar(S.elemHeap(elT))
		arr := vc.fresh("strbytes", "(Array Int Int)")
		n := fmt.Sprintf("(Str_len %s)", x)
		vc.assume(fmt.Sprintf("(= (bseq %s 0 %s) (Str_bytes %s))", arr, n, x))
		vc.assume(fmt.Sprintf("(forall ((i Int)) (! (=> (and (<= 0 i) (< i %s)) (= (select %s i) (Str_at %s i))) :pattern ((select %s i))))", n, arr, x, arr))
		st.vars[h] = vc.define("E", vc.varSort[h], sto(vc.get(st, h), ref, arr))
		f.defVal(v, mkSlice(ref, "0", n, n))
	case isFloatType(to) && isIntType(from):
		S.declFun("Float_of_int", []string{"Int"}, S.usort("Float"))
		f.defVal(v, fmt.Sprintf("(Float_of_int %s)", x))
	case isIntType(to) && isFloatType(from):
		S.declFun("Int_of_float", []string{S.usort("Float")}, "Int")
		t := f.defVal(v, fmt.Sprintf("(Int_of_float %s)", x))
		f.assumeTyped(to, t, st)
	case isFloatType(to) && isFloatType(from):
		f.vals[v] = x
	case isStringType(to) && isIntType(from):
		S.declFun("Str_of_rune", []string{"Int"}, "Str")
		f.defVal(v, fmt.Sprintf("(Str_of_rune %s)", x))
	default:
		if S.sortOf(from) == S.sortOf(to) {
			f.vals[v] = x
			return
		}
		f.abstractInstr(v, st, fmt.Sprintf("convert %s to %s", from, to))
	}
}

func isByteSlice(t types.Type) bool {
	s, ok := t.Underlying().(*types.Slice)
	if !ok {
		return false
	}
	b, ok := s.Elem().Underlying().(*types.Basic)
	return ok && b.Kind() == types.Uint8
}

func (f *Frame) execTypeAssert(v *ssa.TypeAssert, st *State) {
	vc := f.vc
	S := vc.sorts
	x := f.val(v.X)
	var okT, valT Term
	if _, isIface := v.AssertedType.Underlying().(*types.Interface); isIface {
		fn := smtSym("implements:" + typeKey(v.AssertedType))
		S.declFun(fn, []string{"Int"}, "Bool")
		okT = fmt.Sprintf("(and (not (= %s Iface_nil)) (%s (Iface_tag %s)))", x, fn, x)
		// a value statically known to implement the interface: upcasts are always ok
		if types.AssignableTo(v.X.Type(), v.AssertedType) {
			okT = fmt.Sprintf("(not (= %s Iface_nil))", x)
		}
		valT = x
	} else {
		_, unbox := S.boxFn(v.AssertedType)
		okT = fmt.Sprintf("(= (Iface_tag %s) %d)", x, S.tagOf(v.AssertedType))
		valT = fmt.Sprintf("(%s %s)", unbox, x)
	}
	if v.CommaOk {
		okc := vc.define("taok", "Bool", okT)
		so := S.sortOf(v.AssertedType)
		val := vc.define("taval", so, fmt.Sprintf("(ite %s %s %s)", okc, valT, S.zero(v.AssertedType)))
		f.tuples[v] = []Term{val, okc}
		return
	}
	f.mustHold(st, okT, "type-assert")
	t := f.defVal(v, valT)
	f.assumeTyped(v.AssertedType, t, st)
}

func (f *Frame) execLookup(v *ssa.Lookup, st *State) {
	vc := f.vc
	S := vc.sorts
	x := f.val(v.X)
	k := f.val(v.Index)
	switch u := v.X.Type().Underlying().(type) {
	case *types.Map:
		dom, val, _ := S.mapHeaps(u)
		dh, vh := vc.heapVar(dom), vc.heapVar(val)
		has := sel(sel(vc.get(st, dh), x), k)
		raw := sel(sel(vc.get(st, vh), x), k)
		so := S.sortOf(u.Elem())
		hasC := vc.define("has", "Bool", andT(fmt.Sprintf("(not (= %s 0))", x), has))
		valC := vc.define("mval", so, fmt.Sprintf("(ite %s %s %s)", hasC, raw, S.zero(u.Elem())))
		f.assumeTyped(u.Elem(), valC, st)
		if v.CommaOk {
			f.tuples[v] = []Term{valC, hasC}
		} else {
			f.vals[v] = valC
		}
	case *types.Basic:
		f.mustHold(st, fmt.Sprintf("(and (<= 0 %s) (< %s (Str_len %s)))", k, k, x), "index")
		t := f.defVal(v, fmt.Sprintf("(Str_at %s %s)", x, k))
		vc.assume(fmt.Sprintf("(and (<= 0 %s) (<= %s 255))", t, t))
	default:
		unsupported("lookup on %s", v.X.Type())
	}
}

func (f *Frame) execMapUpdate(v *ssa.MapUpdate, st *State) {
	vc := f.vc
	S := vc.sorts
	u := v.Map.Type().Underlying().(*types.Map)
	m := f.val(v.Map)
	k := f.val(v.Key)
	val := f.val(v.Value)
	f.mustHold(st, fmt.Sprintf("(not (= %s 0))", m), "nil-map")
	f.mapSet(u, m, k, val, st)
	_ = S
}

func (f *Frame) mapSet(u *types.Map, m, k, val Term, st *State) {
	vc := f.vc
	dom, vals, card := vc.sorts.mapHeaps(u)
	dh, vh, ch := vc.heapVar(dom), vc.heapVar(vals), vc.heapVar(card)
	d0, v0, c0 := vc.get(st, dh), vc.get(st, vh), vc.get(st, ch)
	had := sel(sel(d0, m), k)
	st.vars[ch] = vc.define("Mn", vc.varSort[ch], sto(c0, m, fmt.Sprintf("(+ %s (ite %s 0 1))", sel(c0, m), had)))
	st.vars[dh] = vc.define("Md", vc.varSort[dh], sto(d0, m, sto(sel(d0, m), k, "true")))
	st.vars[vh] = vc.define("Mv", vc.varSort[vh], sto(v0, m, sto(sel(v0, m), k, val)))
}

func (f *Frame) mapDelete(u *types.Map, m, k Term, st *State) {
	vc := f.vc
	dom, _, card := vc.sorts.mapHeaps(u)
	dh, ch := vc.heapVar(dom), vc.heapVar(card)
	vc.heapVar(smtSym("Mv:" + typeKey(u)))
	d0, c0 := vc.get(st, dh), vc.get(st, ch)
	had := sel(sel(d0, m), k)
	st.vars[ch] = vc.define("Mn", vc.varSort[ch], sto(c0, m, fmt.Sprintf("(- %s (ite %s 1 0))", sel(c0, m), had)))
	st.vars[dh] = vc.define("Md", vc.varSort[dh], sto(d0, m, sto(sel(d0, m), k, "false")))
}

// Range / Next over maps and strings: the iteration order is an arbitrary
// enumeration; the position is hidden loop state.
func (f *Frame) execRange(v *ssa.Range, st *State) {
	vc := f.vc
	key := fmt.Sprintf("c:%d:rangepos_%s", f.id, v.Name())
	vc.registerVar(key, "Int")
	st.vars[key] = "0"
	f.rangeOf[v] = &rangeInfo{x: v.X, posKey: key}
	f.vals[v] = f.val(v.X)
}

func (f *Frame) execNext(v *ssa.Next, st *State) {
	vc := f.vc
	S := vc.sorts
	ri := f.rangeOf[v.Iter]
	if ri == nil {
		unsupported("next on unknown range")
	}
	pos := vc.get(st, ri.posKey)
	x := f.val(ri.x)
	if v.IsString {
		// index/rune iteration over a string: abstract the rune decoding
		ok := vc.define("nextok", "Bool", fmt.Sprintf("(< %s (Str_len %s))", pos, x))
		r := vc.fresh("rune", "Int")
		adv := vc.fresh("adv", "Int")
		vc.assume(fmt.Sprintf("(and (>= %s 1) (<= %s 4) (<= 0 %s) (<= %s 1114111))", adv, adv, r, r))
		st.vars[ri.posKey] = vc.define("pos", "Int", fmt.Sprintf("(ite %s (+ %s %s) %s)", ok, pos, adv, pos))
		f.tuples[v] = []Term{ok, pos, r}
		return
	}
	u := ri.x.Type().Underlying().(*types.Map)
	dom, vals, card := S.mapHeaps(u)
	dh, vh, ch := vc.heapVar(dom), vc.heapVar(vals), vc.heapVar(card)
	// enumeration function for this range instruction: enum(pos) is the pos-th key
	enum := smtSym(fmt.Sprintf("enum:%d:%s", f.id, v.Iter.Name()))
	ks := S.sortOf(u.Key())
	S.declFun(enum, []string{"Int"}, ks)
	n := sel(vc.get(st, ch), x)
	ok := vc.define("nextok", "Bool", fmt.Sprintf("(and (not (= %s 0)) (< %s %s))", x, pos, n))
	k := vc.define("rk", ks, fmt.Sprintf("(%s %s)", enum, pos))
	val := vc.define("rv", S.sortOf(u.Elem()), sel(sel(vc.get(st, vh), x), k))
	f.assumeTyped(u.Key(), k, st)
	f.assumeTyped(u.Elem(), val, st)
	// the enumerated key is in the domain (as long as the loop does not delete; stated as assumption of the model)
	vc.assumeUnder(ok, sel(sel(vc.get(st, dh), x), k))
	st.vars[ri.posKey] = vc.define("pos", "Int", fmt.Sprintf("(ite %s (+ %s 1) %s)", ok, pos, pos))
	f.tuples[v] = []Term{ok, k, val}
}

package main

import (
	"fmt"
	"os"
	"os/exec"
	"path/filepath"
	"sort"
	"strings"
	"sync"
)

// selftest: every /verif/selftest/*.patch is a deliberately property-breaking (must-fail)
// or behaviour-preserving (must-pass, file name *.pass.patch) edit. Header lines:
//   # property: C02
//   # expect: store/prefix.cloneAppend/ensures[right]      (obligation class that must be reported; optional)
// Each patch is applied to a scratch copy of /repo (removed afterwards) and the
// property's check is run against the copy.
func cmdSelftest(args []string) int {
	only := ""
	par := 4
	for i := 0; i < len(args); i++ {
		switch args[i] {
		case "--property":
			i++
			only = args[i]
		case "-j":
			i++
			fmt.Sscan(args[i], &par)
		}
	}
	files, _ := filepath.Glob(filepath.Join(verifDir, "selftest", "*.patch"))
	sort.Strings(files)
	type job struct {
		file, prop, expect string
		mustPass           bool
	}
	var jobs []job
	for _, f := range files {
		b, _ := os.ReadFile(f)
		j := job{file: f, mustPass: strings.HasSuffix(f, ".pass.patch")}
		for _, l := range strings.Split(string(b), "\n") {
			if strings.HasPrefix(l, "# property:") {
				j.prop = strings.TrimSpace(strings.TrimPrefix(l, "# property:"))
			}
			if strings.HasPrefix(l, "# expect:") {
				j.expect = strings.TrimSpace(strings.TrimPrefix(l, "# expect:"))
			}
		}
		if j.prop == "" || (only != "" && j.prop != only) {
			continue
		}
		jobs = append(jobs, j)
	}
	self, _ := os.Executable()
	var mu sync.Mutex
	bad := 0
	sem := make(chan struct{}, par)
	var wg sync.WaitGroup
	for _, j := range jobs {
		wg.Add(1)
		sem <- struct{}{}
		go func(j job) {
			defer wg.Done()
			defer func() { <-sem }()
			dir, err := os.MkdirTemp("", "govc_selftest_")
			if err != nil {
				panic(err)
			}
			defer os.RemoveAll(dir)
			scratch := filepath.Join(dir, "repo")
			out := filepath.Join(dir, "out")
			os.MkdirAll(out, 0o755)
			// the mutant is applied to the COMMITTED tree (git archive HEAD): self-tests are then
			// independent of uncommitted experiments in the working tree (e.g. a seeded change
			// applied for a check); without a git directory the working tree is copied
			copyCmd := exec.Command("cp", "-r", repoDir, scratch)
			if _, err := os.Stat(filepath.Join(repoDir, ".git")); err == nil && os.Getenv("GOVC_SELFTEST_WORKTREE") == "" {
				os.MkdirAll(scratch, 0o755)
				copyCmd = exec.Command("sh", "-c", "git -C '"+repoDir+"' archive HEAD | tar -x -C '"+scratch+"'")
			}
			if b, err := copyCmd.CombinedOutput(); err != nil {
				fmt.Printf("selftest %s: copy failed: %s\n", filepath.Base(j.file), b)
				mu.Lock()
				bad++
				mu.Unlock()
				return
			}
			p := exec.Command("patch", "-p1", "-s", "-i", j.file)
			p.Dir = scratch
			if b, err := p.CombinedOutput(); err != nil {
				fmt.Printf("selftest %s: patch does not apply: %s\n", filepath.Base(j.file), b)
				mu.Lock()
				bad++
				mu.Unlock()
				return
			}
			c := exec.Command(self, "check", "--property", j.prop, "--tier", "quick")
			c.Env = append(os.Environ(), "GOVC_REPO="+scratch, "GOVC_OUT="+out)
			b, _ := c.CombinedOutput()
			code := c.ProcessState.ExitCode()
			text := string(b)
			ok := false
			switch {
			case j.mustPass:
				ok = code == 0 && !strings.Contains(text, "VIOLATION")
			default:
				ok = code == 1 && strings.Contains(text, "VIOLATION property="+j.prop)
				if ok && j.expect != "" {
					ok = false
					for _, l := range strings.Split(text, "\n") {
						if strings.HasPrefix(l, "VIOLATION") && strings.Contains(oblClass(l), j.expect) {
							ok = true
						}
					}
				}
			}
			mu.Lock()
			defer mu.Unlock()
			if ok {
				fmt.Printf("selftest ok   %s (%s)\n", filepath.Base(j.file), j.prop)
			} else {
				bad++
				fmt.Printf("selftest FAIL %s (%s) exit=%d\n%s\n", filepath.Base(j.file), j.prop, code, indent(text))
			}
		}(j)
	}
	wg.Wait()
	fmt.Printf("selftest: %d patches, %d failed\n", len(jobs), bad)
	if bad > 0 {
		return 1
	}
	return 0
}

func indent(s string) string {
	return "    " + strings.ReplaceAll(strings.TrimSpace(s), "\n", "\n    ")
}

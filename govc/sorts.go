package main

import (
	"fmt"
	"go/types"
	"math/big"
	"strings"
)

// Sorts maps Go types to SMT sorts and emits the declarations lazily.
type Sorts struct {
	decls    []string          // datatype / sort / function declarations in dependency order
	byKey    map[string]string // types key -> sort
	structs  map[string]*types.Struct
	ifaceBox map[string]bool
	tagIDs   map[string]int
	heaps    map[string]string // heap name -> sort (for declaration of initial versions)
	heapType map[string]types.Type
	strLits  map[string]string
	strOrder []string
	usorts   map[string]bool
	funcs    map[string]bool
}

func newSorts() *Sorts {
	return &Sorts{byKey: map[string]string{}, structs: map[string]*types.Struct{}, ifaceBox: map[string]bool{},
		tagIDs: map[string]int{}, heaps: map[string]string{}, heapType: map[string]types.Type{}, strLits: map[string]string{},
		usorts: map[string]bool{}, funcs: map[string]bool{}}
}

const prelude = `(set-option :produce-models true)
(set-logic ALL)
(declare-datatype Slice ((mk_Slice (Slice_ref Int) (Slice_off Int) (Slice_len Int) (Slice_cap Int))))
(declare-sort Str 0)
(declare-sort Iface 0)
(declare-sort Bytes 0)
(declare-sort Func 0)
(declare-sort Opaque 0)
(declare-fun Str_len (Str) Int)
(declare-fun Str_at (Str Int) Int)
(declare-fun Str_cat (Str Str) Str)
(declare-fun Str_of (Bytes) Str)
(declare-fun Str_bytes (Str) Bytes)
(declare-fun bseq ((Array Int Int) Int Int) Bytes)
(declare-fun Bytes_len (Bytes) Int)
(declare-fun Bytes_at (Bytes Int) Int)
(declare-fun Iface_tag (Iface) Int)
(declare-const Iface_nil Iface)
(assert (= (Iface_tag Iface_nil) 0))
(assert (forall ((s Str)) (! (>= (Str_len s) 0) :pattern ((Str_len s)))))
(assert (forall ((a Str) (b Str)) (! (= (Str_len (Str_cat a b)) (+ (Str_len a) (Str_len b))) :pattern ((Str_cat a b)))))
(assert (forall ((b Bytes)) (! (= (Str_bytes (Str_of b)) b) :pattern ((Str_of b)))))
(assert (forall ((s Str)) (! (= (Str_of (Str_bytes s)) s) :pattern ((Str_bytes s)))))
(assert (forall ((s Str)) (! (= (Bytes_len (Str_bytes s)) (Str_len s)) :pattern ((Str_bytes s)))))
(assert (forall ((b Bytes)) (! (>= (Bytes_len b) 0) :pattern ((Bytes_len b)))))
(declare-fun sidx (Int Int) Int)
(assert (forall ((o Int) (i Int)) (! (= (sidx o i) (+ o i)) :pattern ((sidx o i)))))
(declare-fun go_div (Int Int) Int)
(declare-fun go_mod (Int Int) Int)
(declare-fun bit_and (Int Int) Int)
(declare-fun bit_or (Int Int) Int)
(declare-fun bit_xor (Int Int) Int)
(declare-fun bit_andnot (Int Int) Int)
(declare-fun bit_not (Int) Int)
(declare-fun shl_u (Int Int) Int)
(declare-fun shr_u (Int Int) Int)
(declare-fun str_lt (Str Str) Bool)
(declare-fun iface_eq (Iface Iface) Bool)
`

func smtSym(s string) string {
	ok := true
	for _, c := range s {
		if !(c >= 'a' && c <= 'z' || c >= 'A' && c <= 'Z' || c >= '0' && c <= '9' || c == '_' || c == '.' || c == '$' || c == '!') {
			ok = false
			break
		}
	}
	if ok && len(s) > 0 && !(s[0] >= '0' && s[0] <= '9') {
		return s
	}
	s = strings.ReplaceAll(s, "|", "!")
	s = strings.ReplaceAll(s, "\\", "!")
	return "|" + s + "|"
}

func typeKey(t types.Type) string {
	return types.TypeString(t, func(p *types.Package) string { return shortPkg(p.Path()) })
}

func intRange(t *types.Basic) (lo, hi *big.Int, ok bool) {
	one := big.NewInt(1)
	pow := func(n uint) *big.Int { return new(big.Int).Lsh(one, n) }
	switch t.Kind() {
	case types.Int8:
		return new(big.Int).Neg(pow(7)), new(big.Int).Sub(pow(7), one), true
	case types.Int16:
		return new(big.Int).Neg(pow(15)), new(big.Int).Sub(pow(15), one), true
	case types.Int32:
		return new(big.Int).Neg(pow(31)), new(big.Int).Sub(pow(31), one), true
	case types.Int, types.Int64:
		return new(big.Int).Neg(pow(63)), new(big.Int).Sub(pow(63), one), true
	case types.Uint8:
		return big.NewInt(0), new(big.Int).Sub(pow(8), one), true
	case types.Uint16:
		return big.NewInt(0), new(big.Int).Sub(pow(16), one), true
	case types.Uint32:
		return big.NewInt(0), new(big.Int).Sub(pow(32), one), true
	case types.Uint, types.Uint64, types.Uintptr:
		return big.NewInt(0), new(big.Int).Sub(pow(64), one), true
	case types.UntypedInt, types.UntypedRune:
		return nil, nil, false
	}
	return nil, nil, false
}

func smtInt(v *big.Int) string {
	if v.Sign() < 0 {
		return "(- " + new(big.Int).Neg(v).String() + ")"
	}
	return v.String()
}

func isIntType(t types.Type) bool {
	b, ok := t.Underlying().(*types.Basic)
	return ok && b.Info()&types.IsInteger != 0
}
func isUnsigned(t types.Type) bool {
	b, ok := t.Underlying().(*types.Basic)
	return ok && b.Info()&types.IsUnsigned != 0
}
func isStringType(t types.Type) bool {
	b, ok := t.Underlying().(*types.Basic)
	return ok && b.Info()&types.IsString != 0
}
func isBoolType(t types.Type) bool {
	b, ok := t.Underlying().(*types.Basic)
	return ok && b.Info()&types.IsBoolean != 0
}
func isFloatType(t types.Type) bool {
	b, ok := t.Underlying().(*types.Basic)
	return ok && b.Info()&(types.IsFloat|types.IsComplex) != 0
}

// sortOf returns the SMT sort of a Go type, declaring datatypes as needed.
func (s *Sorts) sortOf(t types.Type) string {
	switch u := t.Underlying().(type) {
	case *types.Basic:
		switch {
		case u.Info()&types.IsBoolean != 0:
			return "Bool"
		case u.Info()&types.IsInteger != 0:
			return "Int"
		case u.Info()&types.IsString != 0:
			return "Str"
		case u.Info()&(types.IsFloat|types.IsComplex) != 0:
			return s.usort("Float")
		case u.Kind() == types.UnsafePointer:
			return "Int"
		case u.Kind() == types.UntypedNil:
			return "Int"
		}
		return "Opaque"
	case *types.Pointer:
		return "Int"
	case *types.Slice:
		return "Slice"
	case *types.Map:
		return "Int"
	case *types.Chan:
		return "Int"
	case *types.Signature:
		return "Func"
	case *types.Interface:
		return "Iface"
	case *types.Array:
		return "(Array Int " + s.sortOf(u.Elem()) + ")"
	case *types.Struct:
		key := typeKey(t)
		if _, isNamed := t.(*types.Named); !isNamed {
			key = "struct:" + key
		}
		if so, ok := s.byKey[key]; ok {
			return so
		}
		name := smtSym("T:" + key)
		s.byKey[key] = name
		s.structs[name] = u
		// fields first
		var fs []string
		for i := 0; i < u.NumFields(); i++ {
			f := u.Field(i)
			fs = append(fs, fmt.Sprintf("(%s %s)", s.fieldSel(name, i, f.Name()), s.sortOf(f.Type())))
		}
		if len(fs) == 0 {
			s.decls = append(s.decls, fmt.Sprintf("(declare-datatype %s ((%s)))", name, s.ctor(name)))
		} else {
			s.decls = append(s.decls, fmt.Sprintf("(declare-datatype %s ((%s %s)))", name, s.ctor(name), strings.Join(fs, " ")))
		}
		return name
	case *types.Tuple:
		return "Opaque"
	case *types.TypeParam:
		return "Opaque"
	}
	return "Opaque"
}

func (s *Sorts) usort(n string) string {
	if !s.usorts[n] {
		s.usorts[n] = true
		s.decls = append(s.decls, fmt.Sprintf("(declare-sort %s 0)", n))
	}
	return n
}

func unq(sym string) string { return strings.Trim(sym, "|") }

func (s *Sorts) ctor(sortName string) string { return smtSym("mk:" + unq(sortName)) }
func (s *Sorts) fieldSel(sortName string, i int, fname string) string {
	return smtSym(unq(sortName) + "." + fname + fmt.Sprintf("#%d", i))
}

// structSort returns sort name and struct for a (possibly named) struct type.
func (s *Sorts) structInfo(t types.Type) (string, *types.Struct) {
	st, ok := t.Underlying().(*types.Struct)
	if !ok {
		return "", nil
	}
	return s.sortOf(t), st
}

func (s *Sorts) fieldGet(t types.Type, i int, x string) string {
	name, st := s.structInfo(t)
	return fmt.Sprintf("(%s %s)", s.fieldSel(name, i, st.Field(i).Name()), x)
}

// fieldSet returns x with field i replaced by v.
func (s *Sorts) fieldSet(t types.Type, i int, x, v string) string {
	name, st := s.structInfo(t)
	var parts []string
	for j := 0; j < st.NumFields(); j++ {
		if j == i {
			parts = append(parts, v)
		} else {
			parts = append(parts, fmt.Sprintf("(%s %s)", s.fieldSel(name, j, st.Field(j).Name()), x))
		}
	}
	return "(" + s.ctor(name) + " " + strings.Join(parts, " ") + ")"
}

func (s *Sorts) mkStruct(t types.Type, vals []string) string {
	name, _ := s.structInfo(t)
	if len(vals) == 0 {
		return s.ctor(name)
	}
	return "(" + s.ctor(name) + " " + strings.Join(vals, " ") + ")"
}

const nilSlice = "(mk_Slice 0 0 0 0)"

// zero value of a type
func (s *Sorts) zero(t types.Type) string {
	switch u := t.Underlying().(type) {
	case *types.Basic:
		switch {
		case u.Info()&types.IsBoolean != 0:
			return "false"
		case u.Info()&types.IsInteger != 0:
			return "0"
		case u.Info()&types.IsString != 0:
			return s.strLit("")
		case u.Info()&(types.IsFloat|types.IsComplex) != 0:
			return s.namedConst("Float_zero", s.usort("Float"))
		}
		if u.Kind() == types.UnsafePointer || u.Kind() == types.UntypedNil {
			return "0"
		}
		return s.namedConst("Opaque_zero", "Opaque")
	case *types.Pointer, *types.Map, *types.Chan:
		return "0"
	case *types.Slice:
		return nilSlice
	case *types.Signature:
		return s.namedConst("Func_nil", "Func")
	case *types.Interface:
		return "Iface_nil"
	case *types.Array:
		return fmt.Sprintf("((as const %s) %s)", s.sortOf(t), s.zero(u.Elem()))
	case *types.Struct:
		var vals []string
		for i := 0; i < u.NumFields(); i++ {
			vals = append(vals, s.zero(u.Field(i).Type()))
		}
		return s.mkStruct(t, vals)
	}
	return s.namedConst("Opaque_zero", "Opaque")
}

func (s *Sorts) namedConst(name, sort string) string {
	if !s.funcs[name] {
		s.funcs[name] = true
		s.decls = append(s.decls, fmt.Sprintf("(declare-const %s %s)", name, sort))
	}
	return name
}

func (s *Sorts) declFun(name string, args []string, res string) {
	if !s.funcs[name] {
		s.funcs[name] = true
		s.decls = append(s.decls, fmt.Sprintf("(declare-fun %s (%s) %s)", name, strings.Join(args, " "), res))
	}
}

// strLit returns the constant naming a string literal.
func (s *Sorts) strLit(v string) string {
	if c, ok := s.strLits[v]; ok {
		return c
	}
	c := smtSym(fmt.Sprintf("str:%d:%q", len(s.strLits), truncate(v, 40)))
	s.strLits[v] = c
	s.strOrder = append(s.strOrder, v)
	s.decls = append(s.decls, fmt.Sprintf("(declare-const %s Str)", c))
	s.decls = append(s.decls, fmt.Sprintf("(assert (= (Str_len %s) %d))", c, len(v)))
	if len(v) <= 8 {
		for i := 0; i < len(v); i++ {
			s.decls = append(s.decls, fmt.Sprintf("(assert (= (Str_at %s %d) %d))", c, i, v[i]))
		}
	}
	return c
}

func truncate(s string, n int) string {
	if len(s) > n {
		return s[:n]
	}
	return s
}

// strDistinct returns the distinctness assertion over all literals seen.
func (s *Sorts) strDistinct() string {
	if len(s.strOrder) < 2 {
		return ""
	}
	var cs []string
	for _, v := range s.strOrder {
		cs = append(cs, s.strLits[v])
	}
	return "(assert (distinct " + strings.Join(cs, " ") + "))"
}

// Interface boxing -----------------------------------------------------------

func (s *Sorts) tagOf(t types.Type) int {
	k := typeKey(t)
	if id, ok := s.tagIDs[k]; ok {
		return id
	}
	id := len(s.tagIDs) + 1
	s.tagIDs[k] = id
	return id
}

func (s *Sorts) boxFn(t types.Type) (box, unbox string) {
	k := typeKey(t)
	box = smtSym("box:" + k)
	unbox = smtSym("unbox:" + k)
	if !s.ifaceBox[k] {
		s.ifaceBox[k] = true
		so := s.sortOf(t)
		tag := s.tagOf(t)
		s.decls = append(s.decls,
			fmt.Sprintf("(declare-fun %s (%s) Iface)", box, so),
			fmt.Sprintf("(declare-fun %s (Iface) %s)", unbox, so),
			fmt.Sprintf("(assert (forall ((x %s)) (! (and (= (%s (%s x)) x) (= (Iface_tag (%s x)) %d)) :pattern ((%s x)))))", so, unbox, box, box, tag, box),
			fmt.Sprintf("(assert (forall ((i Iface)) (! (=> (= (Iface_tag i) %d) (= (%s (%s i)) i)) :pattern ((%s i)))))", tag, box, unbox, unbox),
		)
	}
	return
}

// Heaps ---------------------------------------------------------------------

// heapName for objects of type t reached through *t.
func (s *Sorts) objHeap(t types.Type) string {
	n := smtSym("H:" + typeKey(t))
	if _, ok := s.heaps[n]; !ok {
		s.heaps[n] = "(Array Int " + s.sortOf(t) + ")"
		s.heapType[n] = t
	}
	return n
}

// elemHeap for slice backing arrays with element type t.
func (s *Sorts) elemHeap(t types.Type) string {
	n := smtSym("E:" + typeKey(t))
	if _, ok := s.heaps[n]; !ok {
		s.heaps[n] = "(Array Int (Array Int " + s.sortOf(t) + "))"
		s.heapType[n] = t
	}
	return n
}

func (s *Sorts) mapHeaps(m *types.Map) (dom, val, card string) {
	k := typeKey(m)
	dom, val, card = smtSym("Md:"+k), smtSym("Mv:"+k), smtSym("Mn:"+k)
	if _, ok := s.heaps[dom]; !ok {
		ks := s.sortOf(m.Key())
		s.heaps[dom] = "(Array Int (Array " + ks + " Bool))"
		s.heaps[val] = "(Array Int (Array " + ks + " " + s.sortOf(m.Elem()) + "))"
		s.heaps[card] = "(Array Int Int)"
	}
	return
}

// typeFacts returns assumptions that hold for any well-typed value x of type t.
func (s *Sorts) typeFacts(t types.Type, x string, depth int) []string {
	var out []string
	switch u := t.Underlying().(type) {
	case *types.Basic:
		if lo, hi, ok := intRange(u); ok {
			out = append(out, fmt.Sprintf("(<= %s %s)", smtInt(lo), x), fmt.Sprintf("(<= %s %s)", x, smtInt(hi)))
		}
	case *types.Pointer, *types.Map, *types.Chan:
		out = append(out, fmt.Sprintf("(<= 0 %s)", x))
	case *types.Slice:
		out = append(out,
			fmt.Sprintf("(<= 0 (Slice_ref %s))", x), fmt.Sprintf("(<= 0 (Slice_off %s))", x),
			fmt.Sprintf("(<= 0 (Slice_len %s))", x), fmt.Sprintf("(<= (Slice_len %s) (Slice_cap %s))", x, x),
			fmt.Sprintf("(<= (+ (Slice_off %s) (Slice_cap %s)) 9223372036854775807)", x, x),
			fmt.Sprintf("(=> (= (Slice_ref %s) 0) (= %s %s))", x, x, nilSlice))
	case *types.Struct:
		if depth <= 0 {
			return nil
		}
		for i := 0; i < u.NumFields(); i++ {
			out = append(out, s.typeFacts(u.Field(i).Type(), s.fieldGet(t, i, x), depth-1)...)
		}
	}
	return out
}

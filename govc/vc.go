package main

import (
	"fmt"
	"go/types"
	"sort"
	"strings"
)

type Term = string

// Obligation is one SMT query: background[:nDecl/:nAssert] ∧ PC ∧ ¬Goal must be unsat
// (or, for cover obligations, background ∧ PC must be sat).
type Obligation struct {
	Name      string
	Kind      string // ensures requires invariant-init invariant-preserve decreases panic-free frame cover lemma overflow
	Props     []string
	PC        Term
	Goal      Term
	nDecl     int
	nAssert   int
	ExpectSat bool
	Soft      bool   // side condition: failure is recorded as an assumption, not a violation
	Src       string // clause source text
	Fn        string
	// filled by the solver stage
	Result string // unsat sat unknown timeout error
	Solver string
	Ms     int64
	Model  string
	Script string
	// RawScript: a complete, self-contained SMT-LIB script (bit-vector mode); when set it is used as is
	RawScript string
}

// State maps state variables (heaps, ghosts, cells, alloc counter) to terms.
type State struct {
	vars  map[string]Term
	epoch int
	pc    Term
}

func (s *State) clone() *State {
	n := &State{vars: make(map[string]Term, len(s.vars)), epoch: s.epoch, pc: s.pc}
	for k, v := range s.vars {
		n.vars[k] = v
	}
	return n
}

// VC accumulates the background theory and obligations of one top-level function.
type VC struct {
	prog    *Program
	db      *SpecDB
	sorts   *Sorts
	decls   []string
	permDecls []string // declarations that survive snapshot/restore
	asserts []string
	obls    []*Obligation
	n       int
	varSort map[string]string // state variable -> sort
	varList []string
	nEpoch  int
	fnName  string

	trusted    map[string]bool // trusted contracts used
	abstracted []string        // abstracted call sites / instructions
	inlined    map[string]bool
	assumed    []string // assumptions (signed arithmetic etc.)
	frameID    int
	pureDecl   map[string]bool
	axiomsDone bool
	axiomDecls []string
	axiomNames []string
	usedPures  map[string]bool
	bseqSrc    map[Term][3]Term // Bytes constant -> (array, offset, length) it abstracts
	freshRefs  map[Term]int     // reference terms produced by an allocation -> name counter at creation
	freshFloor int              // name counter when the innermost loop discovery started (0 = none)
	nondetSites []string        // calls to clock / randomness / environment met while executing (C12)
	oldWrites  map[string]bool  // heaps written at a possibly pre-existing object (reset per loop discovery)
	unsupported []string
	stack      []string
	ifaceSpecsUsed map[string]bool
}

func newVC(prog *Program, db *SpecDB, fnName string) *VC {
	return &VC{prog: prog, db: db, sorts: newSorts(), varSort: map[string]string{}, fnName: fnName,
		trusted: map[string]bool{}, inlined: map[string]bool{}, pureDecl: map[string]bool{}, usedPures: map[string]bool{}, ifaceSpecsUsed: map[string]bool{}}
}

func (vc *VC) fresh(prefix, sort string) Term {
	vc.n++
	name := smtSym(fmt.Sprintf("%s!%d", prefix, vc.n))
	vc.decls = append(vc.decls, fmt.Sprintf("(declare-const %s %s)", name, sort))
	return name
}

// define names a term (keeps scripts linear in size).
func (vc *VC) define(prefix, sort string, t Term) Term {
	if len(t) < 24 && !strings.Contains(t, " ") {
		return t
	}
	c := vc.fresh(prefix, sort)
	if sort == "Bool" && (strings.Contains(t, "(forall ") || strings.Contains(t, "(exists ")) {
		// quantified facts are only ever *assumed* under a path condition: keep them in
		// positive polarity (one-directional definition is sound for proving obligations)
		vc.asserts = append(vc.asserts, fmt.Sprintf("(assert (=> %s %s))", c, t))
		return c
	}
	vc.asserts = append(vc.asserts, fmt.Sprintf("(assert (= %s %s))", c, t))
	return c
}

func (vc *VC) assume(t Term) {
	if t == "true" || t == "" {
		return
	}
	vc.asserts = append(vc.asserts, "(assert "+t+")")
}

func (vc *VC) assumeUnder(pc, t Term) {
	if t == "true" {
		return
	}
	if pc == "true" {
		vc.assume(t)
		return
	}
	vc.assume("(=> " + pc + " " + t + ")")
}

func (vc *VC) addObl(o *Obligation) {
	o.nDecl = len(vc.decls)
	o.nAssert = len(vc.asserts)
	if o.Fn == "" {
		o.Fn = vc.fnName
	}
	vc.obls = append(vc.obls, o)
}

type vcSnap struct{ nd, na, no, n, ne, nabs, nass int }

func (vc *VC) snapshot() vcSnap {
	return vcSnap{len(vc.decls), len(vc.asserts), len(vc.obls), vc.n, vc.nEpoch, len(vc.abstracted), len(vc.assumed)}
}
func (vc *VC) restore(s vcSnap) {
	vc.decls = vc.decls[:s.nd]
	vc.asserts = vc.asserts[:s.na]
	vc.obls = vc.obls[:s.no]
	vc.abstracted = vc.abstracted[:s.nabs]
	vc.assumed = vc.assumed[:s.nass]
	// vc.n is NOT restored: names stay unique even if sort decls were kept.
}

// ---- state variables -------------------------------------------------------

func (vc *VC) registerVar(name, sort string) {
	if _, ok := vc.varSort[name]; !ok {
		vc.varSort[name] = sort
		vc.varList = append(vc.varList, name)
	}
}

// get returns the current term of a state variable, materialising the
// epoch-initial constant on demand.
func (vc *VC) get(st *State, name string) Term {
	if t, ok := st.vars[name]; ok {
		return t
	}
	sortName, ok := vc.varSort[name]
	if !ok {
		panic("unregistered state variable " + name)
	}
	c := smtSym(fmt.Sprintf("%s@%d", unq(name), st.epoch))
	key := "epochconst:" + c
	if !vc.pureDecl[key] {
		vc.pureDecl[key] = true
		vc.permDecls = append(vc.permDecls, fmt.Sprintf("(declare-const %s %s)", c, sortName))
	}
	return c
}

func (vc *VC) heapVar(name string) string {
	so, ok := vc.sorts.heaps[name]
	if !ok {
		panic("unknown heap " + name)
	}
	vc.registerVar(name, so)
	return name
}

func (vc *VC) newEpoch() int {
	vc.nEpoch++
	return vc.nEpoch
}

// havocAll forgets every heap (and optionally ghost) value.
func (vc *VC) havocAll(st *State, ghosts bool) {
	keep := map[string]Term{}
	for k, v := range st.vars {
		if strings.HasPrefix(k, "c:") {
			keep[k] = v
		} else if !ghosts && strings.HasPrefix(k, "g:") {
			keep[k] = v
		} else if k == "alloc" {
			continue
		}
	}
	oldAlloc := vc.get(st, "alloc")
	if !ghosts {
		// materialise ghosts so that they survive the epoch change
		for _, g := range vc.db.GhostList {
			if _, ok := vc.varSort["g:"+g]; ok {
				keep["g:"+g] = vc.get(st, "g:"+g)
			}
		}
	}
	st.vars = keep
	st.epoch = vc.newEpoch()
	na := vc.fresh("alloc", "Int")
	vc.assume(fmt.Sprintf("(>= %s %s)", na, oldAlloc))
	st.vars["alloc"] = na
}

func isHeapVar(k string) bool {
	return !strings.HasPrefix(k, "c:") && !strings.HasPrefix(k, "g:") && k != "alloc"
}

// merge joins states arriving over several edges.
func (vc *VC) merge(ins []*State) *State {
	if len(ins) == 1 {
		return ins[0].clone()
	}
	out := &State{vars: map[string]Term{}}
	sameEpoch := true
	for _, s := range ins[1:] {
		if s.epoch != ins[0].epoch {
			sameEpoch = false
		}
	}
	names := map[string]bool{}
	if sameEpoch {
		out.epoch = ins[0].epoch
		for _, s := range ins {
			for k := range s.vars {
				names[k] = true
			}
		}
	} else {
		out.epoch = vc.newEpoch()
		for _, k := range vc.varList {
			names[k] = true
		}
		for _, s := range ins {
			for k := range s.vars {
				names[k] = true
			}
		}
	}
	var pcs []string
	for _, s := range ins {
		pcs = append(pcs, s.pc)
	}
	out.pc = vc.define("pc", "Bool", orT(pcs...))
	sorted := make([]string, 0, len(names))
	for k := range names {
		sorted = append(sorted, k)
	}
	sort.Strings(sorted)
	for _, k := range sorted {
		if _, ok := vc.varSort[k]; !ok {
			continue
		}
		first := vc.get(ins[0], k)
		same := true
		vals := []Term{first}
		for _, s := range ins[1:] {
			v := vc.get(s, k)
			vals = append(vals, v)
			if v != first {
				same = false
			}
		}
		if same {
			if _, present := ins[0].vars[k]; present || !sameEpoch {
				out.vars[k] = first
			}
			continue
		}
		t := vals[len(vals)-1]
		for i := len(vals) - 2; i >= 0; i-- {
			t = fmt.Sprintf("(ite %s %s %s)", ins[i].pc, vals[i], t)
		}
		out.vars[k] = vc.define("m", vc.varSort[k], t)
	}
	return out
}

// ---- term helpers ----------------------------------------------------------

func andT(ts ...Term) Term {
	var out []string
	for _, t := range ts {
		if t == "true" || t == "" {
			continue
		}
		if t == "false" {
			return "false"
		}
		out = append(out, t)
	}
	switch len(out) {
	case 0:
		return "true"
	case 1:
		return out[0]
	}
	return "(and " + strings.Join(out, " ") + ")"
}

func orT(ts ...Term) Term {
	var out []string
	for _, t := range ts {
		if t == "false" || t == "" {
			continue
		}
		if t == "true" {
			return "true"
		}
		out = append(out, t)
	}
	switch len(out) {
	case 0:
		return "false"
	case 1:
		return out[0]
	}
	return "(or " + strings.Join(out, " ") + ")"
}

func notT(t Term) Term {
	switch t {
	case "true":
		return "false"
	case "false":
		return "true"
	}
	if strings.HasPrefix(t, "(not ") && strings.HasSuffix(t, ")") && balanced(t[5:len(t)-1]) {
		return t[5 : len(t)-1]
	}
	return "(not " + t + ")"
}

func balanced(s string) bool {
	d := 0
	for i := 0; i < len(s); i++ {
		switch s[i] {
		case '(':
			d++
		case ')':
			d--
			if d < 0 {
				return false
			}
		case ' ':
			if d == 0 {
				return false
			}
		}
	}
	return d == 0
}

func impT(a, b Term) Term {
	if a == "true" {
		return b
	}
	if b == "true" {
		return "true"
	}
	return "(=> " + a + " " + b + ")"
}

func sel(a, i Term) Term      { return "(select " + a + " " + i + ")" }
func sto(a, i, v Term) Term   { return "(store " + a + " " + i + " " + v + ")" }
func eqT(a, b Term) Term      { return "(= " + a + " " + b + ")" }
func addT(a, b Term) Term {
	if b == "0" {
		return a
	}
	if a == "0" {
		return b
	}
	return "(+ " + a + " " + b + ")"
}
func subT(a, b Term) Term {
	if b == "0" {
		return a
	}
	return "(- " + a + " " + b + ")"
}
// goDivT / goModT: Go's truncated division. With a literal positive divisor the linear
// definition is inlined; with a symbolic divisor an uninterpreted function is used (its
// definition is available to a contract through `reveal go_div`) because div/mod by a symbolic
// term makes the solvers time out even on goals that only need congruence.
func isPosLit(t Term) bool {
	if t == "" || t == "0" {
		return false
	}
	for _, c := range t {
		if c < '0' || c > '9' {
			return false
		}
	}
	return true
}
func (vc *VC) goDiv(a, b Term) Term {
	if isPosLit(b) {
		vc.noteDivLit(b)
	}
	return "(go_div " + a + " " + b + ")"
}
func (vc *VC) goMod(a, b Term) Term {
	if isPosLit(b) {
		vc.noteDivLit(b)
	}
	return "(go_mod " + a + " " + b + ")"
}

// noteDivLit: for every literal divisor c the (linear) definition of go_div(.,c) / go_mod(.,c)
// is added as an axiom triggered on terms dividing by c.
func (vc *VC) noteDivLit(c Term) {
	// Disabled: even the linear definition makes goals that only need congruence time out
	// when the dividend is a large non-linear term. Contracts that need the meaning of
	// go_div / go_mod say `reveal go_div`.
	if true {
		return
	}
	key := "divlit:" + c
	if vc.pureDecl[key] {
		return
	}
	vc.pureDecl[key] = true
	vc.permDecls = append(vc.permDecls,
		fmt.Sprintf("(assert (forall ((a Int)) (! (= (go_div a %s) (ite (>= a 0) (div a %s) (- (div (- a) %s)))) :pattern ((go_div a %s)))))", c, c, c, c),
		fmt.Sprintf("(assert (forall ((a Int)) (! (= (go_mod a %s) (ite (>= a 0) (mod a %s) (- (mod (- a) %s)))) :pattern ((go_mod a %s)))))", c, c, c, c))
}

const goDivDef = `(assert (forall ((a Int) (b Int)) (! (= (go_div a b) (ite (>= a 0) (ite (> b 0) (div a b) (- (div a (- b)))) (ite (> b 0) (- (div (- a) b)) (div (- a) (- b))))) :pattern ((go_div a b)))))
(assert (forall ((a Int) (b Int)) (! (= (go_mod a b) (- a (* b (go_div a b)))) :pattern ((go_mod a b)))))`

// sidxT: absolute index of element i of a slice with offset off. An uninterpreted function
// (defined by a triggered axiom in the prelude) rather than (+ off i): arithmetic inside
// quantifier patterns is normalised away by the solvers and then never matches.
func sidxT(off, i Term) Term { return "(sidx " + off + " " + i + ")" }

func sref(s Term) Term { return "(Slice_ref " + s + ")" }
func soff(s Term) Term { return "(Slice_off " + s + ")" }
func slen(s Term) Term { return "(Slice_len " + s + ")" }
func scap(s Term) Term { return "(Slice_cap " + s + ")" }
func mkSlice(r, o, l, c Term) Term {
	return "(mk_Slice " + r + " " + o + " " + l + " " + c + ")"
}

// script assembles the SMT-LIB text for an obligation.
func (vc *VC) script(o *Obligation) string {
	var b strings.Builder
	b.WriteString(prelude)
	for _, d := range vc.sorts.decls {
		b.WriteString(d)
		b.WriteByte('\n')
	}
	if d := vc.sorts.strDistinct(); d != "" {
		b.WriteString(d + "\n")
	}
	for _, d := range vc.permDecls {
		b.WriteString(d)
		b.WriteByte('\n')
	}
	for _, d := range vc.axiomDecls {
		b.WriteString(d)
		b.WriteByte('\n')
	}
	for _, d := range vc.decls[:o.nDecl] {
		b.WriteString(d)
		b.WriteByte('\n')
	}
	for _, a := range vc.asserts[:o.nAssert] {
		b.WriteString(a)
		b.WriteByte('\n')
	}
	if o.ExpectSat {
		b.WriteString("(assert " + o.PC + ")\n")
	} else {
		b.WriteString("(assert " + andT(o.PC, notT(o.Goal)) + ")\n")
	}
	b.WriteString("(check-sat)\n(get-model)\n")
	return b.String()
}

func elemType(t types.Type) types.Type {
	switch u := t.Underlying().(type) {
	case *types.Pointer:
		return u.Elem()
	case *types.Slice:
		return u.Elem()
	case *types.Array:
		return u.Elem()
	case *types.Map:
		return u.Elem()
	}
	return nil
}

// bseq builds the Bytes abstraction of the array segment arr[off, off+n) and links
// Bytes_at to the array contents (instantiated per term: quantifying over arrays makes
// the solvers' array theory incomplete).
func (vc *VC) bseq(arr, off, n Term) Term {
	t := fmt.Sprintf("(bseq %s %s %s)", arr, off, n)
	b := vc.define("bytes", "Bytes", t)
	if vc.bseqSrc == nil {
		vc.bseqSrc = map[Term][3]Term{}
	}
	vc.bseqSrc[b] = [3]Term{arr, off, n}
	vc.assume(fmt.Sprintf("(=> (>= %s 0) (= (Bytes_len %s) %s))", n, b, n))
	vc.assume(fmt.Sprintf("(forall ((i Int)) (! (=> (and (<= 0 i) (< i %s)) (= (Bytes_at %s i) (select %s (sidx %s i)))) :pattern ((Bytes_at %s i))))", n, b, arr, off, b))
	return b
}

package main

import (
	"encoding/json"
	"os"
	"path/filepath"
	"strings"
)

type propFilter struct {
	Kinds  []string `json:"kinds"`
	Labels []string `json:"labels"`
	// ExcludeLabels: keep everything except obligations of clauses with these labels
	// (clauses of a shared function that belong to another property's statement)
	ExcludeLabels []string `json:"exclude_labels"`
	// FuncLabels: for functions whose name contains the key, keep only the obligations of the
	// clauses with these labels (a shared function of which only one clause states this property)
	FuncLabels map[string][]string `json:"func_labels"`
}

// applyPropFilter drops, for properties listed in prop_filters.json, the obligations that do
// not carry the property (they are discharged by the checks of the functions' other properties).
func applyPropFilter(prop string, results []*FuncResult) {
	b, err := os.ReadFile(filepath.Join(verifDir, "prop_filters.json"))
	if err != nil {
		return
	}
	var all map[string]propFilter
	if json.Unmarshal(b, &all) != nil {
		return
	}
	pf, ok := all[prop]
	if !ok {
		return
	}
	for _, r := range results {
		var keep []*Obligation
		for _, o := range r.Obligations {
			ok := len(pf.Kinds) == 0 && len(pf.Labels) == 0
			for _, k := range pf.Kinds {
				if o.Kind == k {
					ok = true
				}
			}
			for _, l := range pf.Labels {
				if strings.Contains(o.Name, "["+l) {
					ok = true
				}
			}
			for _, l := range pf.ExcludeLabels {
				if strings.Contains(o.Name, "["+l+"]") {
					ok = false
				}
			}
			for fn, labels := range pf.FuncLabels {
				if strings.Contains(r.Name, fn) {
					ok = false
					for _, l := range labels {
						if strings.Contains(o.Name, "["+l+"]") {
							ok = true
						}
					}
				}
			}
			if ok {
				keep = append(keep, o)
			}
		}
		r.Obligations = keep
	}
}

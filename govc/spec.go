package main

import (
	"bufio"
	"fmt"
	"os"
	"path/filepath"
	"sort"
	"strconv"
	"strings"
	"unicode"
)

// ---------------------------------------------------------------------------
// Spec expression AST

type SExpr interface{ String() string }

type (
	SIdent struct{ Name string }
	SInt   struct{ Val string }
	SStr   struct{ Val string }
	SBool  struct{ Val bool }
	SNil   struct{}
	SUnary struct {
		Op string
		X  SExpr
	}
	SBinary struct {
		Op   string
		X, Y SExpr
	}
	SCall struct {
		Fn   string
		Args []SExpr
	}
	SField struct {
		X    SExpr
		Name string
	}
	SIndex struct {
		X, I SExpr
	}
	SSlice struct {
		X, Lo, Hi SExpr // Lo/Hi may be nil
	}
	SUpdate struct { // m[k := v]
		X, K, V SExpr
	}
	SOld   struct{ X SExpr }
	SQuant struct {
		Forall   bool
		Vars     []SVar
		Body     SExpr
		Triggers [][]SExpr
	}
	SDeref struct{ X SExpr }
)

type SVar struct {
	Name string
	Type string // spec type text
}

func (e *SIdent) String() string  { return e.Name }
func (e *SInt) String() string    { return e.Val }
func (e *SStr) String() string    { return strconv.Quote(e.Val) }
func (e *SBool) String() string   { return fmt.Sprint(e.Val) }
func (e *SNil) String() string    { return "nil" }
func (e *SUnary) String() string  { return e.Op + e.X.String() }
func (e *SBinary) String() string { return "(" + e.X.String() + " " + e.Op + " " + e.Y.String() + ")" }
func (e *SCall) String() string {
	var a []string
	for _, x := range e.Args {
		a = append(a, x.String())
	}
	return e.Fn + "(" + strings.Join(a, ", ") + ")"
}
func (e *SField) String() string { return e.X.String() + "." + e.Name }
func (e *SIndex) String() string { return e.X.String() + "[" + e.I.String() + "]" }
func (e *SSlice) String() string {
	lo, hi := "", ""
	if e.Lo != nil {
		lo = e.Lo.String()
	}
	if e.Hi != nil {
		hi = e.Hi.String()
	}
	return e.X.String() + "[" + lo + ":" + hi + "]"
}
func (e *SUpdate) String() string {
	return e.X.String() + "[" + e.K.String() + " := " + e.V.String() + "]"
}
func (e *SOld) String() string { return "old(" + e.X.String() + ")" }
func (e *SQuant) String() string {
	q := "exists"
	if e.Forall {
		q = "forall"
	}
	var vs []string
	for _, v := range e.Vars {
		vs = append(vs, v.Name+" "+v.Type)
	}
	return "(" + q + " " + strings.Join(vs, ", ") + " :: " + e.Body.String() + ")"
}
func (e *SDeref) String() string { return "*" + e.X.String() }

// ---------------------------------------------------------------------------
// Lexer

type tok struct {
	kind string // ident int str op eof
	text string
}

func lexSpec(s string) ([]tok, error) {
	var out []tok
	i := 0
	for i < len(s) {
		c := s[i]
		switch {
		case c == ' ' || c == '\t':
			i++
		case unicode.IsLetter(rune(c)) || c == '_':
			j := i
			for j < len(s) && (unicode.IsLetter(rune(s[j])) || unicode.IsDigit(rune(s[j])) || s[j] == '_') {
				j++
			}
			out = append(out, tok{"ident", s[i:j]})
			i = j
		case unicode.IsDigit(rune(c)):
			j := i
			if c == '0' && j+1 < len(s) && (s[j+1] == 'x' || s[j+1] == 'X') {
				j += 2
				for j < len(s) && strings.ContainsRune("0123456789abcdefABCDEF", rune(s[j])) {
					j++
				}
				v, err := strconv.ParseUint(s[i+2:j], 16, 64)
				if err != nil {
					return nil, err
				}
				out = append(out, tok{"int", strconv.FormatUint(v, 10)})
			} else {
				for j < len(s) && unicode.IsDigit(rune(s[j])) {
					j++
				}
				out = append(out, tok{"int", s[i:j]})
			}
			i = j
		case c == '"':
			j := i + 1
			for j < len(s) && s[j] != '"' {
				if s[j] == '\\' {
					j++
				}
				j++
			}
			if j >= len(s) {
				return nil, fmt.Errorf("unterminated string")
			}
			v, err := strconv.Unquote(s[i : j+1])
			if err != nil {
				return nil, err
			}
			out = append(out, tok{"str", v})
			i = j + 1
		default:
			ops := []string{"<==>", "==>", ":=", "::", "==", "!=", "<=", ">=", "&&", "||", "<", ">", "+", "-", "*", "/", "%", "!", "(", ")", "[", "]", ".", ",", ":", "{", "}"}
			matched := false
			for _, op := range ops {
				if strings.HasPrefix(s[i:], op) {
					out = append(out, tok{"op", op})
					i += len(op)
					matched = true
					break
				}
			}
			if !matched {
				return nil, fmt.Errorf("unexpected character %q in %q", c, s)
			}
		}
	}
	out = append(out, tok{"eof", ""})
	return out, nil
}

// ---------------------------------------------------------------------------
// Parser

type sparser struct {
	toks []tok
	pos  int
	src  string
}

func parseSpecExpr(s string) (e SExpr, err error) {
	toks, err := lexSpec(s)
	if err != nil {
		return nil, err
	}
	p := &sparser{toks: toks, src: s}
	defer func() {
		if r := recover(); r != nil {
			if pe, ok := r.(parseErr); ok {
				err = fmt.Errorf("%s in %q", string(pe), s)
				return
			}
			panic(r)
		}
	}()
	e = p.expr()
	if p.peek().kind != "eof" {
		p.fail("unexpected " + p.peek().text)
	}
	return e, nil
}

type parseErr string

func (p *sparser) fail(m string)    { panic(parseErr(m)) }
func (p *sparser) peek() tok        { return p.toks[p.pos] }
func (p *sparser) next() tok        { t := p.toks[p.pos]; p.pos++; return t }
func (p *sparser) isOp(o string) bool { t := p.peek(); return t.kind == "op" && t.text == o }
func (p *sparser) accept(o string) bool {
	if p.isOp(o) {
		p.pos++
		return true
	}
	return false
}
func (p *sparser) expect(o string) {
	if !p.accept(o) {
		p.fail("expected " + o + " got " + p.peek().text)
	}
}

func (p *sparser) expr() SExpr {
	t := p.peek()
	if t.kind == "ident" && (t.text == "forall" || t.text == "exists") {
		p.next()
		var vars []SVar
		for {
			n := p.next()
			if n.kind != "ident" {
				p.fail("expected variable name")
			}
			ty := p.typeText()
			vars = append(vars, SVar{n.text, ty})
			if !p.accept(",") {
				break
			}
		}
		// optional triggers: forall p int {bigv[p]} :: body   (several {..} = alternative patterns)
		var trig [][]SExpr
		for p.accept("{") {
			var ts []SExpr
			for {
				ts = append(ts, p.expr())
				if !p.accept(",") {
					break
				}
			}
			p.expect("}")
			trig = append(trig, ts)
		}
		p.expect("::")
		body := p.expr()
		return &SQuant{Forall: t.text == "forall", Vars: vars, Body: body, Triggers: trig}
	}
	return p.iff()
}

// typeText consumes a spec type: ident, pkg.ident, []T, *T, map[K]V
func (p *sparser) typeText() string {
	if p.accept("[") {
		p.expect("]")
		return "[]" + p.typeText()
	}
	if p.accept("*") {
		return "*" + p.typeText()
	}
	t := p.next()
	if t.kind != "ident" {
		p.fail("expected type")
	}
	s := t.text
	if s == "map" {
		p.expect("[")
		k := p.typeText()
		p.expect("]")
		v := p.typeText()
		return "map[" + k + "]" + v
	}
	// package path segments: x/nodes/types.Validator
	for p.isOp("/") {
		p.next()
		t2 := p.next()
		s += "/" + t2.text
	}
	if p.isOp(".") {
		p.next()
		t2 := p.next()
		s += "." + t2.text
	}
	return s
}

func (p *sparser) iff() SExpr {
	x := p.implies()
	for p.accept("<==>") {
		y := p.implies()
		x = &SBinary{"<==>", x, y}
	}
	return x
}
func (p *sparser) implies() SExpr {
	x := p.or()
	if p.accept("==>") {
		// right assoc; the consequent may be a quantifier
		y := p.impliesRHS()
		return &SBinary{"==>", x, y}
	}
	return x
}
func (p *sparser) impliesRHS() SExpr {
	t := p.peek()
	if t.kind == "ident" && (t.text == "forall" || t.text == "exists") {
		return p.expr()
	}
	return p.implies()
}
func (p *sparser) or() SExpr {
	x := p.and()
	for p.accept("||") {
		x = &SBinary{"||", x, p.and()}
	}
	return x
}
func (p *sparser) and() SExpr {
	x := p.cmp()
	for p.accept("&&") {
		x = &SBinary{"&&", x, p.cmp()}
	}
	return x
}
func (p *sparser) cmp() SExpr {
	x := p.add()
	for _, op := range []string{"==", "!=", "<=", ">=", "<", ">"} {
		if p.accept(op) {
			return &SBinary{op, x, p.add()}
		}
	}
	return x
}
func (p *sparser) add() SExpr {
	x := p.mul()
	for {
		if p.accept("+") {
			x = &SBinary{"+", x, p.mul()}
		} else if p.accept("-") {
			x = &SBinary{"-", x, p.mul()}
		} else {
			return x
		}
	}
}
func (p *sparser) mul() SExpr {
	x := p.unary()
	for {
		if p.accept("*") {
			x = &SBinary{"*", x, p.unary()}
		} else if p.accept("/") {
			x = &SBinary{"/", x, p.unary()}
		} else if p.accept("%") {
			x = &SBinary{"%", x, p.unary()}
		} else {
			return x
		}
	}
}
func (p *sparser) unary() SExpr {
	if p.accept("!") {
		return &SUnary{"!", p.unary()}
	}
	if p.accept("-") {
		return &SUnary{"-", p.unary()}
	}
	if p.accept("*") {
		return &SDeref{p.unary()}
	}
	return p.postfix()
}
func (p *sparser) postfix() SExpr {
	x := p.primary()
	for {
		switch {
		case p.accept("."):
			n := p.next()
			if n.kind != "ident" {
				p.fail("expected field name")
			}
			x = &SField{x, n.text}
		case p.accept("["):
			if p.accept(":") {
				var hi SExpr
				if !p.isOp("]") {
					hi = p.expr()
				}
				p.expect("]")
				x = &SSlice{x, nil, hi}
				continue
			}
			i := p.expr()
			if p.accept(":=") {
				v := p.expr()
				p.expect("]")
				x = &SUpdate{x, i, v}
				continue
			}
			if p.accept(":") {
				var hi SExpr
				if !p.isOp("]") {
					hi = p.expr()
				}
				p.expect("]")
				x = &SSlice{x, i, hi}
				continue
			}
			p.expect("]")
			x = &SIndex{x, i}
		default:
			return x
		}
	}
}
func (p *sparser) primary() SExpr {
	t := p.next()
	switch t.kind {
	case "int":
		return &SInt{t.text}
	case "str":
		return &SStr{t.text}
	case "ident":
		switch t.text {
		case "true":
			return &SBool{true}
		case "false":
			return &SBool{false}
		case "nil":
			return &SNil{}
		case "old":
			p.expect("(")
			x := p.expr()
			p.expect(")")
			return &SOld{x}
		}
		if p.isOp("(") {
			p.next()
			var args []SExpr
			if !p.isOp(")") {
				for {
					args = append(args, p.expr())
					if !p.accept(",") {
						break
					}
				}
			}
			p.expect(")")
			return &SCall{t.text, args}
		}
		return &SIdent{t.text}
	case "op":
		if t.text == "(" {
			x := p.expr()
			p.expect(")")
			return x
		}
	}
	p.fail("unexpected " + t.text)
	return nil
}

// ---------------------------------------------------------------------------
// Contract files

type Clause struct {
	Label string // optional [label]
	Props []string
	Expr  SExpr
	Src   string
	// LogGhost: for a `logs` clause, the ghost that is assigned
	LogGhost string
	// Assumed: an `ensures_assumed` clause of a PROVED function - assumed at call sites, NOT
	// checked against the body (it links the function's result to ghost vocabulary that no
	// Go code can establish); listed among the assumptions of every check that uses it
	Assumed bool
}

type LoopSpec struct {
	Invariants []*Clause
	Decreases  *Clause
}

type ModTarget struct {
	Kind string // ghost, deref, elems, all, type
	Name string
	Expr SExpr
}

type Contract struct {
	Name        string // canonical function name
	File        string
	Props       []string
	Requires    []*Clause
	PanicsUnless []*Clause // the function does not return normally unless these hold at entry
	Ensures     []*Clause
	Modifies    []ModTarget
	HasModifies bool
	Loops       map[int]*LoopSpec
	PanicsNever bool
	Trusted     bool   // contract is assumed, never proved (external / primitive)
	TrustNote   string // why
	Pure        bool   // shorthand: modifies nothing, no requires
	Params      []string // optional explicit parameter names (for interface methods / externals)
	NoInline    bool
	Bounded     int // unroll bound for bounded mode (0 = none)
	Asserts     map[string]*Clause
	Lemmas      []string // lemma instantiations "use" at entry
	Reveal      []string // opaque pure functions whose definitions are revealed
	Logs        []*Clause // call bookkeeping (see "logs")
	BitVector   bool      // verified in bit-vector mode (bvmode.go)
}

type PureFunc struct {
	Name   string
	Params []SVar
	Result string
	Body   SExpr // nil => uninterpreted
	Def    SExpr // opaque definition (revealed on demand)
	File   string
	Pkg    string // package dir for type resolution
}

type GhostVar struct {
	Name string
	Type string
	Pkg  string
}

type Axiom struct {
	Name string
	Expr SExpr
	Src  string
	Pkg  string
	File string
}

type Lemma struct {
	Name     string
	Params   []SVar
	Requires []*Clause
	Ensures  []*Clause
	Induct   string
	Reveal   []string
	Pkg      string
	File     string
	Props    []string
}

type GlobalSpec struct {
	Name string // canonical global name pkg.Name
	Expr SExpr  // fact about its value, referring to it as `value`
	Src  string
	Pkg  string
}

type SpecDB struct {
	Contracts map[string]*Contract
	Pures     map[string]*PureFunc
	Ghosts    map[string]*GhostVar
	GhostList []string
	Sorts     []string
	Axioms    []*Axiom
	Lemmas    map[string]*Lemma
	Globals   []*GlobalSpec
	Files     []string
	PkgOfFile map[string]string // contract file -> package dir relative to repo ("" for trusted)
}

func newSpecDB() *SpecDB {
	return &SpecDB{Contracts: map[string]*Contract{}, Pures: map[string]*PureFunc{}, Ghosts: map[string]*GhostVar{},
		Lemmas: map[string]*Lemma{}, PkgOfFile: map[string]string{}}
}

// readSpecLines extracts the //@ lines of a file (continuation: a line whose
// content starts with "\" is appended to the previous one).
func readSpecLines(path string) ([]string, []int, error) {
	f, err := os.Open(path)
	if err != nil {
		return nil, nil, err
	}
	defer f.Close()
	var lines []string
	var nums []int
	sc := bufio.NewScanner(f)
	sc.Buffer(make([]byte, 1<<20), 1<<20)
	n := 0
	for sc.Scan() {
		n++
		l := strings.TrimSpace(sc.Text())
		if !strings.HasPrefix(l, "//@") {
			continue
		}
		l = strings.TrimSpace(strings.TrimPrefix(l, "//@"))
		if l == "" || strings.HasPrefix(l, "#") {
			continue
		}
		if strings.HasPrefix(l, "\\") && len(lines) > 0 {
			lines[len(lines)-1] += " " + strings.TrimSpace(l[1:])
			continue
		}
		lines = append(lines, l)
		nums = append(nums, n)
	}
	return lines, nums, sc.Err()
}

func splitHead(l string) (string, string) {
	i := strings.IndexAny(l, " \t")
	if i < 0 {
		return l, ""
	}
	return l[:i], strings.TrimSpace(l[i+1:])
}

// parseClause parses "[label] @C01,C02 expr"
func parseClause(rest string, defProps []string) (*Clause, error) {
	c := &Clause{Props: defProps}
	rest = strings.TrimSpace(rest)
	if strings.HasPrefix(rest, "[") {
		j := strings.Index(rest, "]")
		if j > 0 && !strings.ContainsAny(rest[1:j], " :=") {
			c.Label = rest[1:j]
			rest = strings.TrimSpace(rest[j+1:])
		}
	}
	if strings.HasPrefix(rest, "@") {
		h, r := splitHead(rest)
		c.Props = strings.Split(h[1:], ",")
		rest = r
	}
	e, err := parseSpecExpr(rest)
	if err != nil {
		return nil, err
	}
	c.Expr = e
	c.Src = rest
	return c, nil
}

func parseParams(s string) ([]SVar, error) {
	s = strings.TrimSpace(s)
	if s == "" {
		return nil, nil
	}
	var out []SVar
	for _, part := range strings.Split(s, ",") {
		f := strings.Fields(part)
		if len(f) != 2 {
			return nil, fmt.Errorf("bad parameter %q", part)
		}
		out = append(out, SVar{f[0], f[1]})
	}
	return out, nil
}

// loadSpecFile reads one contract file. pkgRel is the package directory
// relative to /repo (used to qualify function names); "" means names are
// already fully qualified (trusted specs).
func (db *SpecDB) loadSpecFile(path, pkgRel string) error {
	lines, nums, err := readSpecLines(path)
	if err != nil {
		return err
	}
	db.Files = append(db.Files, path)
	db.PkgOfFile[path] = pkgRel
	var cur *Contract
	var curLemma *Lemma
	fail := func(i int, e error) error { return fmt.Errorf("%s:%d: %v", path, nums[i], e) }
	for i, l := range lines {
		head, rest := splitHead(l)
		switch head {
		case "func":
			name := rest
			if pkgRel != "" && !strings.Contains(strings.SplitN(name, "(", 2)[0], "/") && !strings.HasPrefix(name, "ext:") {
				name = pkgRel + "." + name
			}
			name = strings.TrimPrefix(name, "ext:")
			if _, dup := db.Contracts[name]; dup {
				return fail(i, fmt.Errorf("duplicate contract for %s", name))
			}
			cur = &Contract{Name: name, File: path, Loops: map[int]*LoopSpec{}, Asserts: map[string]*Clause{}}
			db.Contracts[name] = cur
			curLemma = nil
		case "props":
			ps := strings.FieldsFunc(rest, func(r rune) bool { return r == ',' || r == ' ' })
			if curLemma != nil {
				curLemma.Props = ps
			} else if cur != nil {
				cur.Props = ps
			} else {
				return fail(i, fmt.Errorf("props outside func"))
			}
		case "requires", "ensures", "ensures_assumed":
			var props []string
			if cur != nil {
				props = cur.Props
			}
			c, err := parseClause(rest, props)
			if err != nil {
				return fail(i, err)
			}
			if curLemma != nil {
				if head == "requires" {
					curLemma.Requires = append(curLemma.Requires, c)
				} else {
					curLemma.Ensures = append(curLemma.Ensures, c)
				}
				continue
			}
			if cur == nil {
				return fail(i, fmt.Errorf("%s outside func", head))
			}
			if head == "requires" {
				cur.Requires = append(cur.Requires, c)
			} else {
				c.Assumed = head == "ensures_assumed"
				cur.Ensures = append(cur.Ensures, c)
			}
		case "logs":
			// logs g == e : bookkeeping of calls to a PROVED function. At every call site (and at
			// the function's own returns) ghost g is assigned the value e (over parameters, results,
			// old(g)); nothing is proved about it and nothing can be contradicted by it, because g is
			// only ever assigned, never constrained by the body.
			if cur == nil {
				return fail(i, fmt.Errorf("logs outside func"))
			}
			c, err := parseClause(rest, cur.Props)
			if err != nil {
				return fail(i, err)
			}
			g := ""
			if op, ok := c.Expr.(*SBinary); ok && op.Op == "==" {
				if id, ok := op.X.(*SIdent); ok {
					g = id.Name
				}
			}
			if g == "" {
				return fail(i, fmt.Errorf("logs: expected `ghost == expression`"))
			}
			c.LogGhost = g
			cur.Logs = append(cur.Logs, c)
			cur.Modifies = append(cur.Modifies, ModTarget{Kind: "ghost", Name: g})
		case "panics_unless":
			if cur == nil {
				return fail(i, fmt.Errorf("panics_unless outside func"))
			}
			c, err := parseClause(rest, cur.Props)
			if err != nil {
				return fail(i, err)
			}
			cur.PanicsUnless = append(cur.PanicsUnless, c)
		case "modifies":
			if cur == nil {
				return fail(i, fmt.Errorf("modifies outside func"))
			}
			cur.HasModifies = true
			for _, part := range splitTop(rest, ',') {
				part = strings.TrimSpace(part)
				if part == "" || part == "nothing" {
					continue
				}
				if part == "all" {
					cur.Modifies = append(cur.Modifies, ModTarget{Kind: "all"})
					continue
				}
				if part == "heap" {
					cur.Modifies = append(cur.Modifies, ModTarget{Kind: "heap"})
					continue
				}
				if strings.HasPrefix(part, "elems(") && strings.HasSuffix(part, ")") {
					e, err := parseSpecExpr(part[6 : len(part)-1])
					if err != nil {
						return fail(i, err)
					}
					cur.Modifies = append(cur.Modifies, ModTarget{Kind: "elems", Expr: e})
					continue
				}
				if strings.HasPrefix(part, "*") {
					e, err := parseSpecExpr(part[1:])
					if err != nil {
						return fail(i, err)
					}
					cur.Modifies = append(cur.Modifies, ModTarget{Kind: "deref", Expr: e})
					continue
				}
				cur.Modifies = append(cur.Modifies, ModTarget{Kind: "ghost", Name: part})
			}
		case "loop":
			if cur == nil {
				return fail(i, fmt.Errorf("loop outside func"))
			}
			f := strings.SplitN(rest, " ", 3)
			if len(f) < 3 {
				return fail(i, fmt.Errorf("bad loop line"))
			}
			n, err := strconv.Atoi(f[0])
			if err != nil {
				return fail(i, err)
			}
			ls := cur.Loops[n]
			if ls == nil {
				ls = &LoopSpec{}
				cur.Loops[n] = ls
			}
			c, err := parseClause(f[2], cur.Props)
			if err != nil {
				return fail(i, err)
			}
			switch f[1] {
			case "invariant":
				ls.Invariants = append(ls.Invariants, c)
			case "decreases":
				ls.Decreases = c
			default:
				return fail(i, fmt.Errorf("bad loop clause %s", f[1]))
			}
		case "panics_never":
			cur.PanicsNever = true
		case "trusted":
			cur.Trusted = true
			cur.TrustNote = rest
		case "pure_fn":
			cur.Pure = true
		case "bitvector":
			if cur == nil {
				return fail(i, fmt.Errorf("bitvector outside func"))
			}
			cur.BitVector = true
		case "noinline":
			cur.NoInline = true
		case "params":
			cur.Params = strings.FieldsFunc(rest, func(r rune) bool { return r == ',' || r == ' ' })
		case "bounded":
			n, err := strconv.Atoi(rest)
			if err != nil {
				return fail(i, err)
			}
			cur.Bounded = n
		case "use":
			if cur == nil {
				return fail(i, fmt.Errorf("use outside func"))
			}
			cur.Lemmas = append(cur.Lemmas, rest)
		case "reveal":
			names := strings.FieldsFunc(rest, func(r rune) bool { return r == ',' || r == ' ' })
			if curLemma != nil {
				curLemma.Reveal = append(curLemma.Reveal, names...)
			} else if cur != nil {
				cur.Reveal = append(cur.Reveal, names...)
			} else {
				return fail(i, fmt.Errorf("reveal outside func/lemma"))
			}
		case "sort":
			db.Sorts = append(db.Sorts, rest)
		case "ghost":
			f := strings.SplitN(rest, " ", 2)
			if len(f) != 2 {
				return fail(i, fmt.Errorf("bad ghost decl"))
			}
			if _, dup := db.Ghosts[f[0]]; dup {
				return fail(i, fmt.Errorf("duplicate ghost %s", f[0]))
			}
			db.Ghosts[f[0]] = &GhostVar{Name: f[0], Type: strings.TrimSpace(f[1]), Pkg: pkgRel}
			db.GhostList = append(db.GhostList, f[0])
		case "pure":
			// pure name(params) result [= expr]
			op := strings.Index(rest, "(")
			cp := matchParen(rest, op)
			if op < 0 || cp < 0 {
				return fail(i, fmt.Errorf("bad pure decl"))
			}
			name := strings.TrimSpace(rest[:op])
			ps, err := parseParams(rest[op+1 : cp])
			if err != nil {
				return fail(i, err)
			}
			tail := strings.TrimSpace(rest[cp+1:])
			res := tail
			var body SExpr
			opaque := false
			if j := strings.Index(tail, "="); j >= 0 && !strings.HasPrefix(tail[j:], "==") {
				res = strings.TrimSpace(tail[:j])
				if strings.HasSuffix(res, " opaque") {
					opaque = true
					res = strings.TrimSpace(strings.TrimSuffix(res, " opaque"))
				}
				body, err = parseSpecExpr(tail[j+1:])
				if err != nil {
					return fail(i, err)
				}
			}
			if _, dup := db.Pures[name]; dup {
				return fail(i, fmt.Errorf("duplicate pure %s", name))
			}
			pf := &PureFunc{Name: name, Params: ps, Result: res, Body: body, File: path, Pkg: pkgRel}
			if opaque {
				// opaque: used as an uninterpreted function; its definition becomes an axiom
				// only in contracts / lemmas that say `reveal name`
				pf.Def, pf.Body = body, nil
			}
			db.Pures[name] = pf
			cur, curLemma = nil, nil
		case "axiom":
			name := ""
			if strings.HasPrefix(rest, "[") {
				j := strings.Index(rest, "]")
				name = rest[1:j]
				rest = strings.TrimSpace(rest[j+1:])
			}
			e, err := parseSpecExpr(rest)
			if err != nil {
				return fail(i, err)
			}
			db.Axioms = append(db.Axioms, &Axiom{Name: name, Expr: e, Src: rest, Pkg: pkgRel, File: path})
			cur, curLemma = nil, nil
		case "lemma":
			op := strings.Index(rest, "(")
			cp := matchParen(rest, op)
			if op < 0 || cp < 0 {
				return fail(i, fmt.Errorf("bad lemma decl"))
			}
			name := strings.TrimSpace(rest[:op])
			ps, err := parseParams(rest[op+1 : cp])
			if err != nil {
				return fail(i, err)
			}
			curLemma = &Lemma{Name: name, Params: ps, Pkg: pkgRel, File: path}
			tail := strings.TrimSpace(rest[cp+1:])
			if strings.HasPrefix(tail, "induction ") {
				curLemma.Induct = strings.TrimSpace(strings.TrimPrefix(tail, "induction "))
			}
			db.Lemmas[name] = curLemma
			cur = nil
		case "global":
			f := strings.SplitN(rest, " ", 2)
			if len(f) != 2 {
				return fail(i, fmt.Errorf("bad global decl"))
			}
			name := f[0]
			if pkgRel != "" && !strings.Contains(name, "/") {
				name = pkgRel + "." + name
			}
			e, err := parseSpecExpr(f[1])
			if err != nil {
				return fail(i, err)
			}
			db.Globals = append(db.Globals, &GlobalSpec{Name: name, Expr: e, Src: f[1], Pkg: pkgRel})
		default:
			return fail(i, fmt.Errorf("unknown directive %q", head))
		}
	}
	return nil
}

func matchParen(s string, open int) int {
	if open < 0 {
		return -1
	}
	d := 0
	for i := open; i < len(s); i++ {
		switch s[i] {
		case '(':
			d++
		case ')':
			d--
			if d == 0 {
				return i
			}
		}
	}
	return -1
}

func splitTop(s string, sep byte) []string {
	var out []string
	d := 0
	last := 0
	for i := 0; i < len(s); i++ {
		switch s[i] {
		case '(', '[':
			d++
		case ')', ']':
			d--
		default:
			if s[i] == sep && d == 0 {
				out = append(out, s[last:i])
				last = i + 1
			}
		}
	}
	out = append(out, s[last:])
	return out
}

// findContractFiles lists every zz_verif_contracts*.go file under /repo.
func findContractFiles() ([]string, error) {
	var out []string
	err := filepath.Walk(repoDir, func(p string, info os.FileInfo, err error) error {
		if err != nil {
			return nil
		}
		if info.IsDir() && (info.Name() == ".git" || info.Name() == "node_modules") {
			return filepath.SkipDir
		}
		if !info.IsDir() && strings.HasPrefix(info.Name(), "zz_verif_contracts") && strings.HasSuffix(info.Name(), ".go") {
			out = append(out, p)
		}
		return nil
	})
	sort.Strings(out)
	return out, err
}

func loadAllSpecs(verifDir string) (*SpecDB, error) {
	db := newSpecDB()
	files, err := findContractFiles()
	if err != nil {
		return nil, err
	}
	for _, f := range files {
		rel, _ := filepath.Rel(repoDir, filepath.Dir(f))
		if err := db.loadSpecFile(f, rel); err != nil {
			return nil, err
		}
	}
	trusted, _ := filepath.Glob(filepath.Join(verifDir, "contracts", "trusted", "*.spec"))
	sort.Strings(trusted)
	for _, f := range trusted {
		if err := db.loadSpecFile(f, ""); err != nil {
			return nil, err
		}
		// everything in a trusted file is trusted
	}
	for _, c := range db.Contracts {
		if db.PkgOfFile[c.File] == "" {
			c.Trusted = true
			if c.TrustNote == "" {
				c.TrustNote = "external: " + filepath.Base(c.File)
			}
		}
	}
	return db, nil
}

package main

import (
	"bufio"
	"encoding/json"
	"fmt"
	"os"
	"path/filepath"
	"regexp"
	"sort"
	"strconv"
	"strings"
	"time"
)

var verifDir = envOr("GOVC_VERIF", "/verif")
var outDir = envOr("GOVC_OUT", verifDir)

var ordRe = regexp.MustCompile(`#\d+`)

// oblClass strips site ordinals from an obligation name.
func oblClass(name string) string { return ordRe.ReplaceAllString(name, "") }

type knownFinding struct {
	Property   string `json:"property"`
	Obligation string `json:"obligation"` // obligation class (ordinals stripped) or full name
	Site       string `json:"site,omitempty"`
	What       string `json:"what"`
	Status     string `json:"status,omitempty"` // "known" (default) or "fixed"
	Commit     string `json:"commit,omitempty"`
}

func loadKnownFindings() []knownFinding {
	var out []knownFinding
	f, err := os.Open(filepath.Join(verifDir, "known_findings.jsonl"))
	if err != nil {
		return nil
	}
	defer f.Close()
	sc := bufio.NewScanner(f)
	sc.Buffer(make([]byte, 1<<20), 1<<20)
	for sc.Scan() {
		l := strings.TrimSpace(sc.Text())
		if l == "" || strings.HasPrefix(l, "#") || strings.HasPrefix(l, "fixed:") {
			continue
		}
		var k knownFinding
		if json.Unmarshal([]byte(l), &k) == nil && k.Status != "fixed" {
			out = append(out, k)
		}
	}
	return out
}

// undecided.json: obligation classes that do not discharge on the pinned tree
// (tool/solver limits). They are reported, never claimed, never alarmed.
func loadUndecided() map[string]string {
	out := map[string]string{}
	b, err := os.ReadFile(filepath.Join(verifDir, "undecided.json"))
	if err != nil {
		return out
	}
	json.Unmarshal(b, &out)
	return out
}

type propPlan struct {
	contracts []*Contract
	lemmas    []*Lemma
	pkgs      []string
}

func planFor(db *SpecDB, prop string) *propPlan {
	p := &propPlan{}
	pk := map[string]bool{}
	has := func(ps []string) bool {
		for _, x := range ps {
			if x == prop {
				return true
			}
		}
		return false
	}
	var names []string
	for n := range db.Contracts {
		names = append(names, n)
	}
	sort.Strings(names)
	for _, n := range names {
		c := db.Contracts[n]
		if c.Trusted || !has(c.Props) {
			continue
		}
		p.contracts = append(p.contracts, c)
		if rel := db.PkgOfFile[c.File]; rel != "" {
			pk["./"+rel] = true
		}
	}
	var ln []string
	for n := range db.Lemmas {
		ln = append(ln, n)
	}
	sort.Strings(ln)
	for _, n := range ln {
		l := db.Lemmas[n]
		if has(l.Props) {
			p.lemmas = append(p.lemmas, l)
			if l.Pkg != "" {
				pk["./"+l.Pkg] = true
			}
		}
	}
	for k := range pk {
		p.pkgs = append(p.pkgs, k)
	}
	sort.Strings(p.pkgs)
	return p
}

type oblReport struct {
	Name   string `json:"name"`
	Kind   string `json:"kind"`
	Result string `json:"result"`
	Solver string `json:"solver"`
	Ms     int64  `json:"ms"`
	Clause string `json:"clause,omitempty"`
}

func cmdCheck(args []string) int {
	prop := ""
	tier := envOr("VERIF_TIER", "quick")
	for i := 0; i < len(args); i++ {
		switch args[i] {
		case "--property":
			i++
			prop = args[i]
		case "--tier":
			i++
			tier = args[i]
		}
	}
	if prop == "" {
		usage()
	}
	seed, _ := strconv.Atoi(os.Getenv("VERIF_SEED"))
	t0 := time.Now()
	fail := func(msg string) int {
		// a broken check must not look like a pass
		fmt.Printf("CHECK-ERROR property=%s %s\n", prop, msg)
		return 2
	}
	db, err := loadAllSpecs(verifDir)
	if err != nil {
		return fail("spec load: " + err.Error())
	}
	plan := planFor(db, prop)
	if len(plan.contracts)+len(plan.lemmas) == 0 {
		return fail("no contracts carry this property")
	}
	prog, err := loadProgram(plan.pkgs)
	if err != nil {
		return fail("load: " + err.Error())
	}
	loadS := time.Since(t0).Seconds()
	var results []*FuncResult
	for _, c := range plan.contracts {
		results = append(results, verifyFunction(prog, db, c))
	}
	for _, l := range plan.lemmas {
		results = append(results, verifyLemma(prog, db, l))
	}
	timeout := 10
	thorough := tier == "thorough"
	if thorough {
		timeout = 60
	}
	tSolve := time.Now()
	// optional per-property obligation filter (prop_filters.json): a property may be carried by
	// specific obligation kinds / clause labels of functions that are fully verified under
	// other properties
	applyPropFilter(prop, results)
	discharge(results, timeout, thorough, 10)
	solveS := time.Since(tSolve).Seconds()

	undecided := loadUndecided()
	known := loadKnownFindings()
	var violations []string
	var knownHit []string
	var reports []oblReport
	var undec []string
	var uncovered []string
	var softFailed []string
	trusted := map[string]bool{}
	var abstracted []string
	var assumed []string
	var fnNames []string
	inlined := map[string]bool{}
	nObl, nDis := 0, 0
	nSoft, nSoftOK := 0, 0
	var samples []map[string]string
	solverUse := map[string]int{}
	var solverMs int64
	os.MkdirAll(filepath.Join(outDir, "replays"), 0o755)
	vioN := 0
	report := func(name, reason, body string, replayable bool) {
		vioN++
		path := filepath.Join(outDir, "replays", fmt.Sprintf("%s_%d.txt", prop, vioN))
		os.WriteFile(path, []byte(fmt.Sprintf("property: %s\nfailed obligation: %s\nreason: %s\n\n%s\n", prop, name, reason, body)), 0o644)
		suffix := ""
		if !replayable {
			suffix = " no-failing-input-found"
		}
		violations = append(violations, fmt.Sprintf("VIOLATION property=%s replay=%s obligation=%s%s", prop, path, name, suffix))
	}
	for _, r := range results {
		if r.Err != "" {
			if strings.HasPrefix(r.Err, "function not found") {
				uncovered = append(uncovered, r.Name)
				continue
			}
			cls := r.Name + "/verifiable"
			if _, ok := undecided[cls]; ok {
				undec = append(undec, cls+": "+r.Err)
				continue
			}
			report(cls, "function under contract could not be translated: "+r.Err, "", false)
			continue
		}
		fnNames = append(fnNames, r.Name)
		if r.VC == nil {
			r.VC = &VC{trusted: map[string]bool{}, inlined: map[string]bool{}}
			assumed = append(assumed, r.Name+": verified in bit-vector mode (QF_BV, Go wrap-around semantics, 64-bit int/uint)")
		}
		for t := range r.VC.trusted {
			trusted[t] = true
		}
		for t := range r.VC.inlined {
			inlined[t] = true
		}
		abstracted = append(abstracted, r.VC.abstracted...)
		assumed = append(assumed, r.VC.assumed...)
		for _, o := range r.Obligations {
			ok := o.Result == "unsat"
			if o.ExpectSat {
				ok = o.Result != "unsat" && o.Result != "error"
			}
			solverUse[o.Solver]++
			solverMs += o.Ms
			if o.Soft {
				nSoft++
				if ok {
					nSoftOK++
				} else {
					softFailed = append(softFailed, o.Name+" ("+o.Src+")")
				}
				continue
			}
			cls := oblClass(o.Name)
			if _, isUndec := undecided[cls]; isUndec {
				if !ok {
					undec = append(undec, o.Name)
				}
				continue
			}
			nObl++
			reports = append(reports, oblReport{o.Name, o.Kind, o.Result, o.Solver, o.Ms, o.Src})
			if o.Result == "skipped" {
				// fail-fast: the function already has reported violations; this frame obligation was
				// not attempted (it stays undischarged in the evidence, no separate VIOLATION line)
				continue
			}
			if ok {
				nDis++
				if len(samples) < 3 && o.Kind != "cover" {
					samples = append(samples, map[string]string{"obligation": o.Name, "clause": o.Src, "goal_smt": truncate(o.Goal, 600), "path_condition": o.PC})
				}
				continue
			}
			// failed: known finding?
			matched := false
			for _, k := range known {
				if k.Obligation == cls || k.Obligation == o.Name {
					knownHit = append(knownHit, fmt.Sprintf("KNOWN-FINDING: property=%s %s [%s]", prop, k.What, o.Name))
					matched = true
					break
				}
			}
			if matched {
				nObl-- // not claimed
				continue
			}
			replayPath, reproduced := tryReplay(prog, r, o, prop)
			body := fmt.Sprintf("clause: %s\nsolver: %s result: %s (%d ms)\n\nsolver output:\n%s\n\nSMT-LIB query:\n%s", o.Src, o.Solver, o.Result, o.Ms, o.Model, o.Script)
			if reproduced {
				vioN++
				violations = append(violations, fmt.Sprintf("VIOLATION property=%s replay=%s obligation=%s", prop, replayPath, o.Name))
			} else {
				reason := "obligation discharged on the pinned tree no longer discharges"
				if o.ExpectSat {
					reason = "vacuity guard failed: the path condition is unsatisfiable"
				}
				report(o.Name, reason, body, false)
			}
		}
	}
	sort.Strings(abstracted)
	abstracted = uniq(abstracted)
	assumed = uniq(assumed)
	var tb []string
	for t := range trusted {
		c := db.Contracts[t]
		tb = append(tb, "trusted contract: "+t+" ("+c.TrustNote+")")
	}
	sort.Strings(tb)
	tb = append(tb, "solvers: z3 4.8.12, z3 5.1.0, cvc5 1.0 (SMT-LIB ALL)", "golang.org/x/tools/go/ssa v0.29.0 lowering of the working tree", "govc VC generator (this repository)")
	if nObl == 0 && len(violations) == 0 && len(knownHit) == 0 {
		return fail("zero obligations generated (vacuous check)")
	}
	var inl []string
	for k := range inlined {
		inl = append(inl, k)
	}
	sort.Strings(inl)
	assumptions := []string{
		"single-threaded execution; Go runtime, GC and map hashing not modelled",
		"signed int/int64 arithmetic is mathematical; each site has a no-overflow side obligation (proved: " + fmt.Sprintf("%d of %d", nSoftOK, nSoft) + ")",
		"unsigned arithmetic is exact modulo 2^n",
	}
	for _, s := range softFailed {
		assumptions = append(assumptions, "side condition not proved (assumed): "+s)
	}
	for _, s := range abstracted {
		assumptions = append(assumptions, "abstracted: "+s)
	}
	for _, s := range assumed {
		assumptions = append(assumptions, "assumed: "+s)
	}
	for _, s := range undec {
		assumptions = append(assumptions, "undecided (not claimed): "+s)
	}
	ev := map[string]interface{}{
		"property_id": prop,
		"tier":        tier,
		"seed":        seed,
		"level":       "proof",
		"wall_s":      time.Since(t0).Seconds(),
		"violations":  len(violations),
		"assumptions": assumptions,
		"coverage": map[string]interface{}{
			"obligations":              nObl,
			"discharged":               nDis,
			"checker_cmd":              fmt.Sprintf("govc check --property %s --tier %s (z3 4.8.12 | z3 5.1.0 | cvc5 1.0 portfolio, %ds/solver)", prop, tier, timeout),
			"trusted_base":             tb,
			"functions_under_contract": fnNames,
			"inlined_callees":          inl,
			"uncovered":                uncovered,
			"obligation_results":       reports,
			"side_obligations":         map[string]int{"total": nSoft, "proved": nSoftOK},
			"solver_use":               solverUse,
			"solver_ms_total":          solverMs,
			"load_s":                   loadS,
			"solve_s":                  solveS,
			"known_findings_hit":       knownHit,
			"samples":                  samples,
			"explanation":              "every obligation is generated from go/ssa of /repo's working tree on this run and discharged by an SMT solver; see DESIGN.md",
		},
	}
	os.MkdirAll(filepath.Join(outDir, "evidence"), 0o755)
	b, _ := json.MarshalIndent(ev, "", " ")
	os.WriteFile(filepath.Join(outDir, "evidence", prop+".json"), b, 0o644)
	for _, k := range knownHit {
		fmt.Println(k)
	}
	for _, v := range violations {
		fmt.Println(v)
	}
	fmt.Printf("property=%s tier=%s functions=%d obligations=%d discharged=%d side=%d/%d undecided=%d wall=%.1fs\n",
		prop, tier, len(fnNames), nObl, nDis, nSoftOK, nSoft, len(undec), time.Since(t0).Seconds())
	if len(violations) > 0 {
		return 1
	}
	if thorough && os.Getenv("GOVC_NO_SELFTEST") == "" {
		// thorough tier: the property's must-fail mutants (scratch copies, removed afterwards)
		// must each be reported; a mutant that is no longer caught means the check has become
		// vacuous or too weak - that is a broken check, not a pass
		if rc := cmdSelftest([]string{"--property", prop, "-j", "4"}); rc != 0 {
			fmt.Printf("CHECK-ERROR property=%s self-test corpus: a must-fail mutant was not reported\n", prop)
			return 2
		}
	}
	return 0
}

func uniq(s []string) []string {
	sort.Strings(s)
	var out []string
	for i, x := range s {
		if i == 0 || x != s[i-1] {
			out = append(out, x)
		}
	}
	return out
}

// tryReplay attempts to turn a solver model into a failing test on the real code.

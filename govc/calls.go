package main

import (
	"go/ast"
	"fmt"
	"go/types"
	"strings"

	"golang.org/x/tools/go/ssa"
)

const maxInlineDepth = 5
const maxInlineInstrs = 600

// packages whose un-contracted functions are assumed not to modify any state
// visible to the caller (results unconstrained). Listed in the evidence.
var purePkgs = map[string]bool{
	"fmt": true, "strings": true, "bytes": true, "strconv": true, "errors": true, "encoding/hex": true,
	"math": true, "unicode": true, "unicode/utf8": true, "time": true, "encoding/base64": true,
	"github.com/tendermint/tendermint/libs/log": true, "log": true, "reflect": true, "os": true,
	"encoding/binary": true, "math/bits": true, "regexp": true, "sort": false,
	"github.com/pokt-network/pocket-core/types/errors": false,
}

func (f *Frame) setResult(v ssa.Value, sig *types.Signature, results []Term) {
	if v == nil {
		return
	}
	switch sig.Results().Len() {
	case 0:
	case 1:
		f.vals[v] = results[0]
	default:
		f.tuples[v] = results
	}
}

func (f *Frame) freshResults(sig *types.Signature, st *State, prefix string) []Term {
	var out []Term
	for i := 0; i < sig.Results().Len(); i++ {
		t := sig.Results().At(i).Type()
		c := f.vc.fresh(prefix, f.vc.sorts.sortOf(t))
		f.assumeTyped(t, c, st)
		out = append(out, c)
	}
	return out
}

func (f *Frame) execCall(v ssa.Value, c *ssa.CallCommon, st *State) {
	vc := f.vc
	sig := c.Signature()
	// builtins
	if b, ok := c.Value.(*ssa.Builtin); ok {
		f.execBuiltin(v, b, c, st)
		return
	}
	var args []Term
	var argTypes []types.Type
	var callee *ssa.Function
	name := ""
	invoke := c.IsInvoke()
	if invoke {
		args = append(args, f.val(c.Value))
		argTypes = append(argTypes, c.Value.Type())
		name = ifaceMethodName(c.Value.Type(), c.Method)
		f.mustHold(st, fmt.Sprintf("(not (= %s Iface_nil))", f.val(c.Value)), "nil-iface-call")
	} else {
		callee = c.StaticCallee()
		if callee == nil {
			if mc, ok := f.closures[c.Value]; ok {
				callee = mc.Fn.(*ssa.Function)
			}
		}
		if callee != nil {
			name = canonName(callee)
			if callee.Origin() != nil {
				name = canonName(callee.Origin())
			}
		} else if nt, isNamed := c.Value.Type().(*types.Named); isNamed && nt.Obj().Pkg() != nil && f.vc.db.Contracts[shortPkg(nt.Obj().Pkg().Path())+"."+nt.Obj().Name()+"$call"] != nil {
			// call through a value of a named function type (e.g. sdk.Handler, sdk.AnteHandler):
			// the contract "<pkg>.<Type>$call" specifies what any such function may do
			name = shortPkg(nt.Obj().Pkg().Path()) + "." + nt.Obj().Name() + "$call"
		} else if par, isPar := c.Value.(*ssa.Parameter); isPar && par.Parent() != nil {
			// call through a function-valued PARAMETER: a contract named
			// "<function>$<parameter>" specifies what the callback may do (its
			// `params` line names the callback's arguments)
			pn := canonName(par.Parent())
			if par.Parent().Origin() != nil {
				pn = canonName(par.Parent().Origin())
			}
			if _, has := f.vc.db.Contracts[pn+"$"+par.Name()]; has {
				name = pn + "$" + par.Name()
			}
		} else if ln := localNameOf(f.fn, c.Value); ln != "" {
			// call through a function value held in a LOCAL variable (e.g. the querier a
			// router returned): contract "<function>$<variable>", same form as for parameters
			pn := canonName(f.fn)
			if f.fn.Origin() != nil {
				pn = canonName(f.fn.Origin())
			}
			if _, has := f.vc.db.Contracts[pn+"$"+ln]; has {
				name = pn + "$" + ln
			}
		}
	}
	for _, a := range c.Args {
		if _, isLoc := f.locs[a]; isLoc {
			unsupported("interior pointer passed to call in %s", canonName(f.fn))
		}
		args = append(args, f.val(a))
		argTypes = append(argTypes, a.Type())
	}
	// closure bindings become leading "free variable" arguments when inlining
	root := f.rootFrame()
	root.callSeq++
	site := root.callSeq

	// C12: functions claimed deterministic must not reach a source of local nondeterminism
	if (name == "time.Now" || name == "time.Since" || name == "time.Until" || name == "os.Getenv" || name == "os.Hostname" || strings.HasPrefix(name, "math/rand.") || strings.HasPrefix(name, "crypto/rand.")) && f.discovering == nil {
		if tc := f.topContract(); tc != nil {
			for _, p := range tc.Props {
				if p == "C12" {
					vc.nondetSites = append(vc.nondetSites, name)
					vc.addObl(&Obligation{
						Name: fmt.Sprintf("%s/deterministic@%s#%d", canonName(root.fn), name, site),
						Kind: "determinism", Props: tc.Props, PC: st.pc, Goal: "false",
						Src: "no reachable call to " + name + " (local clock / randomness / environment) in a function on the consensus path",
					})
				}
			}
		}
	}
	// process termination: the path ends here (like a panic)
	if name == "os.Exit" || name == "log.Fatal" || name == "log.Fatalf" || name == "log.Fatalln" {
		f.panics = append(f.panics, st.pc)
		st.pc = "false"
		f.setResult(v, sig, f.freshResults(sig, st, "exit"))
		return
	}
	if con, ok := vc.db.Contracts[name]; ok && name != "" {
		// a function under verification may call itself: its own contract is used
		// function-valued arguments: closures created in this frame whose body has a contract
		f.fnArgCons = nil
		for _, a := range c.Args {
			if _, isFn := a.Type().Underlying().(*types.Signature); !isFn {
				continue
			}
			var fc *Contract
			if mc, ok := f.closures[a]; ok {
				if cf, ok := mc.Fn.(*ssa.Function); ok {
					fc = vc.db.Contracts[canonName(cf)]
				}
			}
			f.fnArgCons = append(f.fnArgCons, fc)
		}
		res := f.applyContract(con, callee, sig, invoke, args, argTypes, st, site)
		f.setResult(v, sig, res)
		return
	}
	if callee != nil && f.canInline(callee) {
		res, ok := f.inline(callee, c, args, st)
		if ok {
			f.setResult(v, sig, res)
			return
		}
	}
	// abstract call
	what := name
	if what == "" {
		what = "dynamic call " + c.Value.Name()
	}
	pure := false
	if callee != nil {
		pk := ""
		if callee.Pkg != nil {
			pk = callee.Pkg.Pkg.Path()
		} else if callee.Object() != nil && callee.Object().Pkg() != nil {
			pk = callee.Object().Pkg().Path()
		}
		pure = purePkgs[pk]
	}
	if invoke {
		// interface methods of common read-only interfaces
		tn := typeKey(c.Value.Type())
		if tn == "error" || strings.HasSuffix(tn, "log.Logger") || tn == "fmt.Stringer" {
			pure = true
		}
	}
	if pure {
		vc.abstracted = append(vc.abstracted, fmt.Sprintf("%s: call %s assumed side-effect free (results unconstrained)", canonName(f.fn), what))
	} else {
		inRepo := callee != nil && callee.Pkg != nil && strings.HasPrefix(callee.Pkg.Pkg.Path(), repoMod)
		vc.abstracted = append(vc.abstracted, fmt.Sprintf("%s: call %s abstracted (all heaps havocked, ghosts %v)", canonName(f.fn), what, inRepo || invoke || callee == nil))
		vc.havocAll(st, inRepo || invoke || callee == nil)
	}
	res := f.freshResults(sig, st, "callres")
	f.setResult(v, sig, res)
}

func (f *Frame) canInline(callee *ssa.Function) bool {
	if len(callee.Blocks) == 0 || f.depth >= maxInlineDepth {
		return false
	}
	if con := f.vc.db.Contracts[canonName(callee)]; con != nil {
		return false
	}
	n := 0
	for _, b := range callee.Blocks {
		n += len(b.Instrs)
	}
	if n > maxInlineInstrs {
		return false
	}
	for _, s := range f.vc.stack {
		if s == canonName(callee) {
			return false
		}
	}
	// only functions from the repository, or tiny external accessors
	pk := ""
	if callee.Pkg != nil {
		pk = callee.Pkg.Pkg.Path()
	} else if callee.Parent() != nil && callee.Parent().Pkg != nil {
		pk = callee.Parent().Pkg.Pkg.Path()
	}
	if !strings.HasPrefix(pk, repoMod) {
		return false
	}
	return true
}

// inline executes the callee body in place. Loops in the callee make it fail (→ abstract).
func (f *Frame) inline(callee *ssa.Function, c *ssa.CallCommon, args []Term, st *State) (res []Term, ok bool) {
	vc := f.vc
	sub := vc.newFrame(callee, f)
	if len(sub.loops) > 0 {
		return nil, false
	}
	snap := vc.snapshot()
	saved := st.clone()
	defer func() {
		if r := recover(); r != nil {
			if _, isU := r.(unsupportedErr); isU {
				vc.restore(snap)
				*st = *saved
				vc.stack = vc.stack[:len(vc.stack)-1]
				res, ok = nil, false
				return
			}
			panic(r)
		}
	}()
	vc.stack = append(vc.stack, canonName(callee))
	if mc, isClosure := f.closures[c.Value]; isClosure {
		sub.freeVars = map[*ssa.FreeVar]ssa.Value{}
		for i, fv := range callee.FreeVars {
			sub.freeVars[fv] = mc.Bindings[i]
		}
	} else if len(callee.FreeVars) > 0 {
		vc.stack = vc.stack[:len(vc.stack)-1]
		return nil, false
	}
	for i, p := range callee.Params {
		sub.vals[p] = args[i]
	}
	entry := st.clone()
	sub.entry = entry
	sub.headerSt[callee.Blocks[0]] = entry
	sub.run(nil)
	vc.stack = vc.stack[:len(vc.stack)-1]
	vc.inlined[canonName(callee)] = true
	// panics in the callee propagate
	for _, p := range sub.panics {
		f.panics = append(f.panics, p)
	}
	if len(sub.rets) == 0 {
		st.pc = "false"
		return f.freshResults(callee.Signature, st, "noret"), true
	}
	states := make([]*State, len(sub.rets))
	for i, r := range sub.rets {
		states[i] = r.st
	}
	m := vc.merge(states)
	nres := callee.Signature.Results().Len()
	for i := 0; i < nres; i++ {
		t := sub.rets[len(sub.rets)-1].results[i]
		same := true
		for _, r := range sub.rets {
			if r.results[i] != t {
				same = false
			}
		}
		if !same {
			for j := len(sub.rets) - 2; j >= 0; j-- {
				t = fmt.Sprintf("(ite %s %s %s)", sub.rets[j].st.pc, sub.rets[j].results[i], t)
			}
			t = vc.define("inlres", vc.sorts.sortOf(callee.Signature.Results().At(i).Type()), t)
		}
		res = append(res, t)
	}
	*st = *m
	return res, true
}

// applyContract handles a call through the callee's contract.
func (f *Frame) applyContract(con *Contract, callee *ssa.Function, sig *types.Signature, invoke bool,
	args []Term, argTypes []types.Type, st *State, site int) []Term {
	vc := f.vc
	if con.Trusted {
		vc.trusted[con.Name] = true
	}
	pnames := paramNames(callee, sig, con, invoke)
	if len(pnames) != len(args) {
		// closures: free variables are not parameters
		if len(pnames) > len(args) {
			pnames = pnames[len(pnames)-len(args):]
		} else {
			specFail("contract %s: %d parameter names for %d arguments", con.Name, len(pnames), len(args))
		}
	}
	env := &SpecEnv{vc: vc, names: map[string]SVal{}, st: st, pkg: f.contractPkg(con), frame: f}
	for i, n := range pnames {
		env.names[n] = SVal{args[i], env.goST(argTypes[i])}
	}
	if strings.Contains(con.Name, "$") && f.curInstr != nil {
		// contract of a callback PARAMETER: its clauses may also mention the variables of the
		// function that makes the call (their values at the call site)
		blk := f.curInstr.Block()
		idx := -1
		for i, in := range blk.Instrs {
			if in == f.curInstr {
				idx = i
			}
		}
		if idx >= 0 {
			env.resolver = func(name string) (SVal, bool) {
				if v, ok := f.resolveSourceNameAt(name, blk, idx, st, nil); ok {
					return v, true
				}
				// parameters of the calling function
				pn := paramNames(f.fn, f.fn.Signature, f.contract, false)
				for i, p := range f.fn.Params {
					if i < len(pn) && pn[i] == name {
						return SVal{f.vals[p], env.goST(p.Type())}, true
					}
				}
				return SVal{}, false
			}
		}
	}
	short := con.Name
	// requires
	for i, c := range con.Requires {
		label := c.Label
		if label == "" {
			label = fmt.Sprint(i)
		}
		goal := f.evalClause(env, c, con)
		if f.discovering == nil {
			vc.addObl(&Obligation{
				Name:  fmt.Sprintf("%s/call#%d:%s/requires[%s]", canonName(f.rootFrame().fn), site, short, label),
				Kind:  "requires",
				Props: f.topProps(), PC: st.pc, Goal: goal, Src: c.Src,
			})
		}
		f.guard(st, goal)
	}
	// panics_unless: a run-time check inside the callee; the call only returns if it held
	for _, c := range con.PanicsUnless {
		f.mustHold(st, f.evalClause(env, c, con), "callee-check:"+lastName(con.Name))
	}
	pre := st.clone()
	preAlloc := vc.get(st, "alloc")
	// a callee that is handed a function value may invoke it: whatever that function does is not
	// part of the callee's own modifies clause, so everything is havocked first (the callee's
	// ensures are assumed afterwards)
	if !con.Pure {
		nFn := 0
		for _, at := range argTypes {
			if _, isFn := at.Underlying().(*types.Signature); isFn {
				nFn++
			}
		}
		if nFn > 0 {
			precise := len(f.fnArgCons) == nFn
			for _, fc := range f.fnArgCons {
				if fc == nil || !fc.HasModifies {
					precise = false
				}
			}
			if precise {
				// every function value handed over is a closure with its own (proved or trusted)
				// contract: the callee can at most cause what those contracts may modify
				for _, fc := range f.fnArgCons {
					for _, m := range fc.Modifies {
						switch m.Kind {
						case "ghost":
							if g, ok := vc.db.Ghosts[m.Name]; ok {
								ty := vc.resolveType(g.Type, vc.pkgByRel(g.Pkg))
								vc.registerVar("g:"+m.Name, ty.Sort)
								st.vars["g:"+m.Name] = vc.fresh("g_"+m.Name, ty.Sort)
							}
						default:
							vc.havocAll(st, m.Kind == "all")
						}
					}
				}
			} else {
				vc.havocAll(st, true)
			}
		}
		f.fnArgCons = nil
	}
	// havoc modifies
	if !con.Pure && !con.HasModifies && !con.Trusted {
		// a PROVED contract without a modifies clause claims no frame: callers may assume nothing
		// about what it leaves unchanged
		vc.havocAll(st, true)
	}
	if !con.Pure {
		for _, m := range con.Modifies {
			switch m.Kind {
			case "all":
				vc.havocAll(st, true)
			case "heap":
				vc.havocAll(st, false)
			case "ghost":
				g, ok := vc.db.Ghosts[m.Name]
				if !ok {
					specFail("contract %s modifies unknown ghost %s", con.Name, m.Name)
				}
				ty := vc.resolveType(g.Type, vc.pkgByRel(g.Pkg))
				vc.registerVar("g:"+m.Name, ty.Sort)
				st.vars["g:"+m.Name] = vc.fresh("g_"+m.Name, ty.Sort)
			case "deref":
				penv := *env
				penv.st = pre
				p := penv.eval(m.Expr)
				pt, ok := goUnder(p.Ty).(*types.Pointer)
				if !ok {
					specFail("contract %s: modifies *%s on non-pointer", con.Name, m.Expr)
				}
				l := &Loc{kind: locObj, ref: p.T, rootT: pt.Elem()}
				nv := vc.fresh("hvobj", f.sortOfRoot(l))
				f.rootSet(l, st, nv)
			case "elems":
				penv := *env
				penv.st = pre
				s := penv.eval(m.Expr)
				sl, ok := goUnder(s.Ty).(*types.Slice)
				if !ok {
					specFail("contract %s: modifies elems(%s) on non-slice", con.Name, m.Expr)
				}
				h := vc.heapVar(vc.sorts.elemHeap(sl.Elem()))
				na := vc.fresh("hvarr", "(Array Int "+vc.sorts.sortOf(sl.Elem())+")")
				st.vars[h] = vc.define("E", vc.varSort[h], sto(vc.get(st, h), sref(s.T), na))
				vc.noteOldWrite(h)
			}
		}
	}
	// callee may allocate
	if vc.get(st, "alloc") == preAlloc {
		na := vc.fresh("alloc", "Int")
		vc.assume(fmt.Sprintf("(>= %s %s)", na, preAlloc))
		st.vars["alloc"] = na
	}
	res := f.freshResults(sig, st, "res_"+lastName(con.Name))
	// ensures
	post := &SpecEnv{vc: vc, names: map[string]SVal{}, st: st, old: pre, pkg: env.pkg, frame: f, oldAlloc: preAlloc}
	for k, v := range env.names {
		post.names[k] = v
	}
	rn := resultNames(sig)
	for i, r := range res {
		sv := SVal{r, post.goST(sig.Results().At(i).Type())}
		post.names[rn[i]] = sv
		post.names[fmt.Sprintf("result%d", i)] = sv
		if len(res) == 1 {
			post.names["result"] = sv
		}
	}
	for _, c := range con.Ensures {
		t := f.evalClause(post, c, con)
		vc.assumeUnder(st.pc, t)
		if c.Assumed && !con.Trusted {
			vc.assumed = append(vc.assumed, fmt.Sprintf("clause of %s assumed at its call sites, not proved against its body (ghost link): %s", con.Name, c.Src))
		}
	}
	f.applyLogs(con, post, st)
	return res
}

// applyLogs performs the `logs g == e` assignments of a contract in state st (post.st must be st):
// every logged ghost gets a fresh value defined by its clause; old(g) refers to post.old.
func (f *Frame) applyLogs(con *Contract, post *SpecEnv, st *State) {
	vc := f.vc
	if len(con.Logs) == 0 {
		return
	}
	// evaluate all right-hand sides against the state BEFORE any of the logged ghosts change
	// (old(g) and plain g both denote the value before this call's bookkeeping)
	type upd struct {
		key string
		val Term
	}
	var ups []upd
	for _, c := range con.Logs {
		g, ok := vc.db.Ghosts[c.LogGhost]
		if !ok {
			specFail("contract %s logs unknown ghost %s", con.Name, c.LogGhost)
		}
		ty := vc.resolveType(g.Type, vc.pkgByRel(g.Pkg))
		vc.registerVar("g:"+c.LogGhost, ty.Sort)
		rhs := c.Expr.(*SBinary).Y
		var t Term
		func() {
			defer func() {
				if r := recover(); r != nil {
					if se, ok := r.(specErr); ok {
						panic(specErr{fmt.Sprintf("contract %s: logs %q: %s", con.Name, c.Src, se.msg)})
					}
					panic(r)
				}
			}()
			v := post.eval(rhs)
			t = v.T
		}()
		ups = append(ups, upd{"g:" + c.LogGhost, vc.define("log_"+c.LogGhost, ty.Sort, t)})
	}
	for _, u := range ups {
		st.vars[u.key] = u.val
	}
}

func lastName(s string) string {
	if i := strings.LastIndexAny(s, "./)"); i >= 0 && i+1 < len(s) {
		return s[i+1:]
	}
	return s
}

func (f *Frame) topProps() []string {
	if c := f.topContract(); c != nil {
		return c.Props
	}
	return nil
}

func (f *Frame) contractPkg(con *Contract) *types.Package {
	rel := f.vc.db.PkgOfFile[con.File]
	if rel != "" {
		return f.vc.pkgByRel(rel)
	}
	return nil
}

func (f *Frame) evalClause(env *SpecEnv, c *Clause, con *Contract) (t Term) {
	defer func() {
		if r := recover(); r != nil {
			if se, ok := r.(specErr); ok {
				panic(specErr{fmt.Sprintf("contract %s: clause %q: %s", con.Name, c.Src, se.msg)})
			}
			panic(r)
		}
	}()
	return env.evalBool(c.Expr)
}

// ---- builtins ---------------------------------------------------------------------

func (f *Frame) execBuiltin(v ssa.Value, b *ssa.Builtin, c *ssa.CallCommon, st *State) {
	vc := f.vc
	S := vc.sorts
	switch b.Name() {
	case "len":
		x := f.val(c.Args[0])
		switch u := c.Args[0].Type().Underlying().(type) {
		case *types.Slice:
			f.defVal(v, slen(x))
		case *types.Basic:
			f.defVal(v, "(Str_len "+x+")")
		case *types.Map:
			_, _, card := S.mapHeaps(u)
			ch := vc.heapVar(card)
			t := f.defVal(v, fmt.Sprintf("(ite (= %s 0) 0 %s)", x, sel(vc.get(st, ch), x)))
			vc.assume(fmt.Sprintf("(>= %s 0)", t))
		case *types.Array:
			f.vals[v] = fmt.Sprint(u.Len())
		case *types.Pointer:
			f.vals[v] = fmt.Sprint(u.Elem().Underlying().(*types.Array).Len())
		case *types.Chan:
			f.freshVal(v, st)
		default:
			unsupported("len of %s", c.Args[0].Type())
		}
	case "cap":
		x := f.val(c.Args[0])
		switch c.Args[0].Type().Underlying().(type) {
		case *types.Slice:
			f.defVal(v, scap(x))
		default:
			f.freshVal(v, st)
		}
	case "copy":
		f.execCopy(v, c, st)
	case "append":
		f.execAppend(v, c, st)
	case "delete":
		u := c.Args[0].Type().Underlying().(*types.Map)
		m := f.val(c.Args[0])
		// delete on a nil map is a no-op
		before := st.clone()
		f.mapDelete(u, m, f.val(c.Args[1]), st)
		_ = before
	case "panic":
		f.panics = append(f.panics, st.pc)
		st.pc = "false"
	case "print", "println":
	case "recover":
		// Only non-panicking executions of the function are modelled (a panic ends the path):
		// in those, recover() returns nil. Executions in which a deferred handler recovers from a
		// panic and the function then returns normally are NOT covered - recorded as an assumption.
		if v != nil {
			f.defVal(v, "Iface_nil")
		}
		f.vc.assumed = append(f.vc.assumed, fmt.Sprintf("%s: recover(): executions that panic and are recovered by a deferred handler are not covered (only non-panicking executions are verified)", canonName(f.fn)))
	case "min", "max":
		x, y := f.val(c.Args[0]), f.val(c.Args[1])
		op := "<="
		if b.Name() == "max" {
			op = ">="
		}
		f.defVal(v, fmt.Sprintf("(ite (%s %s %s) %s %s)", op, x, y, x, y))
	case "ssa:wrapnilchk":
		f.vals[v] = f.val(c.Args[0])
	default:
		unsupported("builtin %s", b.Name())
	}
}

// execCopy models copy(dst, src): n = min(len) elements are copied.
func (f *Frame) execCopy(v ssa.Value, c *ssa.CallCommon, st *State) {
	vc := f.vc
	S := vc.sorts
	dst := f.val(c.Args[0])
	elT := c.Args[0].Type().Underlying().(*types.Slice).Elem()
	h := vc.heapVar(S.elemHeap(elT))
	var srcLen Term
	var srcAt func(i Term) Term
	src := f.val(c.Args[1])
	if isStringType(c.Args[1].Type()) {
		srcLen = "(Str_len " + src + ")"
		srcAt = func(i Term) Term { return fmt.Sprintf("(Str_at %s %s)", src, i) }
	} else {
		srcLen = slen(src)
		cur := vc.get(st, h)
		srcArr := vc.define("srcarr", "(Array Int "+S.sortOf(elT)+")", sel(cur, sref(src)))
		srcAt = func(i Term) Term { return sel(srcArr, addT(soff(src), i)) }
	}
	n := vc.define("ncopy", "Int", fmt.Sprintf("(ite (<= %s %s) %s %s)", slen(dst), srcLen, slen(dst), srcLen))
	cur := vc.get(st, h)
	oldArr := vc.define("dstarr", "(Array Int "+S.sortOf(elT)+")", sel(cur, sref(dst)))
	newArr := vc.fresh("copied", "(Array Int "+S.sortOf(elT)+")")
	// frame + copied range (array property fragment)
	vc.assume(fmt.Sprintf("(forall ((j Int)) (! (= (select %s j) (ite (and (<= %s j) (< j (+ %s %s))) %s (select %s j))) :pattern ((select %s j))))",
		newArr, soff(dst), soff(dst), n, srcAt(subT("j", soff(dst))), oldArr, newArr))
	st.vars[h] = vc.define("E", vc.varSort[h], fmt.Sprintf("(ite (> %s 0) %s %s)", n, sto(cur, sref(dst), newArr), cur))
	vc.noteOldWrite(h)
	if v != nil {
		f.vals[v] = n
	}
}

// execAppend models append(s, xs...) following Go semantics: in place when
// capacity suffices, otherwise a fresh backing array.
func (f *Frame) execAppend(v ssa.Value, c *ssa.CallCommon, st *State) {
	vc := f.vc
	S := vc.sorts
	s := f.val(c.Args[0])
	elT := c.Args[0].Type().Underlying().(*types.Slice).Elem()
	h := vc.heapVar(S.elemHeap(elT))
	arrSort := "(Array Int " + S.sortOf(elT) + ")"
	var addLen Term
	var addAt func(i Term) Term
	x := f.val(c.Args[1])
	if isStringType(c.Args[1].Type()) {
		addLen = "(Str_len " + x + ")"
		addAt = func(i Term) Term { return fmt.Sprintf("(Str_at %s %s)", x, i) }
	} else {
		addLen = slen(x)
		cur := vc.get(st, h)
		xArr := vc.define("apparr", arrSort, sel(cur, sref(x)))
		addAt = func(i Term) Term { return sel(xArr, addT(soff(x), i)) }
	}
	addLen = vc.define("addlen", "Int", addLen)
	newLen := vc.define("newlen", "Int", addT(slen(s), addLen))
	cur := vc.get(st, h)
	inPlace := vc.define("inplace", "Bool", fmt.Sprintf("(<= %s %s)", newLen, scap(s)))
	// Appending nothing returns the slice itself.
	fresh := f.newRef(st)
	oldArr := vc.define("oldarr", arrSort, sel(cur, sref(s)))
	newOff := vc.define("newoff", "Int", fmt.Sprintf("(ite %s %s 0)", inPlace, soff(s)))
	newCap := vc.fresh("newcap", "Int")
	vc.assume(fmt.Sprintf("(ite %s (= %s %s) (>= %s %s))", inPlace, newCap, scap(s), newCap, newLen))
	newArr := vc.fresh("appended", arrSort)
	// contents: positions of s keep (relative) values, appended range gets xs, rest of an in-place array unchanged
	vc.assume(fmt.Sprintf("(forall ((j Int)) (! (= (select %s j) (ite (and (<= (+ %s %s) j) (< j (+ %s %s))) %s (ite %s (select %s j) (select %s (+ (- j %s) %s))))) :pattern ((select %s j))))",
		newArr, newOff, slen(s), newOff, newLen, addAt(subT(subT("j", newOff), slen(s))), inPlace, oldArr, oldArr, newOff, soff(s), newArr))
	nothing := fmt.Sprintf("(= %s 0)", addLen)
	res := fmt.Sprintf("(ite %s %s (ite %s %s %s))", nothing, s,
		inPlace, mkSlice(sref(s), soff(s), newLen, scap(s)), mkSlice(fresh, "0", newLen, newCap))
	st.vars[h] = vc.define("E", vc.varSort[h], fmt.Sprintf("(ite %s %s (ite %s %s %s))", nothing, cur,
		inPlace, sto(cur, sref(s), newArr), sto(cur, fresh, newArr)))
	vc.noteOldWrite(h)
	if v != nil {
		f.defVal(v, res)
	}
}

// applyGlobalSpecs assumes declared facts about a package-level variable when it is loaded.
func (vc *VC) applyGlobalSpecs(f *Frame, g *ssa.Global, val Term, st *State) {
	name := shortPkg(g.Pkg.Pkg.Path()) + "." + g.Name()
	for _, gs := range vc.db.Globals {
		if gs.Name != name {
			continue
		}
		env := &SpecEnv{vc: vc, names: map[string]SVal{}, st: st, pkg: g.Pkg.Pkg, frame: f}
		env.names["value"] = SVal{val, env.goST(g.Type().Underlying().(*types.Pointer).Elem())}
		t := env.evalBool(gs.Expr)
		vc.assume(t)
		vc.assumed = append(vc.assumed, fmt.Sprintf("global %s: %s (package-level variable assumed never reassigned)", name, gs.Src))
	}
}

// localNameOf returns the source name of the local variable that holds SSA value v (from the
// debug references of the enclosing function), or "".
func localNameOf(fn *ssa.Function, v ssa.Value) string {
	for _, b := range fn.Blocks {
		for _, in := range b.Instrs {
			if d, ok := in.(*ssa.DebugRef); ok && d.X == v && !d.IsAddr {
				if id, ok := d.Expr.(*ast.Ident); ok {
					return id.Name
				}
			}
		}
	}
	return ""
}

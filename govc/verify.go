package main

import (
	"fmt"
	"go/types"
	"sort"
	"strings"

	"golang.org/x/tools/go/ssa"
)

// FuncResult is the outcome of generating VCs for one function under contract.
type FuncResult struct {
	Name        string
	Contract    *Contract
	VC          *VC
	Err         string // tool limitation (unsupported construct / spec error)
	Obligations []*Obligation
	Frame       *Frame // top frame after symbolic execution (counterexample replay reads parameters / returns from it)
	BV          bool   // verified in bit-vector mode (bvmode.go)
}

// invEnv builds the spec environment for loop invariants / asserts inside function bodies:
// names resolve to parameters, named results and source-level variables at header h.
func (f *Frame) invEnv(h *ssa.BasicBlock, st *State, phis map[*ssa.Phi]Term) *SpecEnv {
	env := f.baseEnv(st)
	env.resolver = func(name string) (SVal, bool) {
		return f.resolveSourceName(name, h, st, phis)
	}
	env.resolverFirst = true
	return env
}

func (f *Frame) baseEnv(st *State) *SpecEnv {
	vc := f.vc
	env := &SpecEnv{vc: vc, names: map[string]SVal{}, st: st, old: f.entry, frame: f}
	if f.contract != nil {
		env.pkg = f.contractPkg(f.contract)
	}
	if env.pkg == nil && f.fn.Pkg != nil {
		env.pkg = f.fn.Pkg.Pkg
	}
	if f.entry != nil {
		env.oldAlloc = vc.get(f.entry, "alloc")
	}
	pn := paramNames(f.fn, f.fn.Signature, f.contract, false)
	for i, p := range f.fn.Params {
		if i < len(pn) {
			env.names[pn[i]] = SVal{f.params[i], env.goST(p.Type())}
		}
	}
	return env
}

// resolveSourceName finds the SSA value holding source variable `name` at loop header h.
func (f *Frame) resolveSourceName(name string, h *ssa.BasicBlock, st *State, phis map[*ssa.Phi]Term) (SVal, bool) {
	return f.resolveSourceNameAt(name, h, -1, st, phis)
}

// resolveSourceNameAt: like resolveSourceName, for a program point inside block h: only debug
// references that occur before instruction index `before` of h count (before < 0: loop-header rules).
func (f *Frame) resolveSourceNameAt(name string, h *ssa.BasicBlock, before int, st *State, phis map[*ssa.Phi]Term) (SVal, bool) {
	vc := f.vc
	mk := func(t Term, ty types.Type) (SVal, bool) {
		return SVal{t, &SType{Go: ty, Sort: vc.sorts.sortOf(ty)}}, true
	}
	// 0. `rangepos`: how many entries a `for ... range <map|string>` loop whose header is h has
	// consumed so far (the position of its iterator)
	if name == "rangepos" {
		for _, instr := range h.Instrs {
			if nx, ok := instr.(*ssa.Next); ok {
				if ri := f.rangeOf[nx.Iter]; ri != nil {
					return SVal{vc.get(st, ri.posKey), &SType{Sort: "Int"}}, true
				}
			}
		}
	}
	// 1. phi at the header named `name`
	for _, instr := range h.Instrs {
		phi, ok := instr.(*ssa.Phi)
		if !ok {
			break
		}
		if phi.Comment == name {
			if phis != nil {
				if t, ok := phis[phi]; ok {
					return mk(t, phi.Type())
				}
			}
			return mk(f.val(phi), phi.Type())
		}
	}
	// 2. deepest dominating DebugRef for an object of that name
	var best *ssa.DebugRef
	for _, b := range f.fn.Blocks {
		if !(b == h || b.Dominates(h)) {
			continue
		}
		for ii, instr := range b.Instrs {
			d, ok := instr.(*ssa.DebugRef)
			if !ok {
				continue
			}
			obj := d.Object()
			if obj == nil || obj.Name() != name {
				continue
			}
			if tv, isVar := obj.(*types.Var); isVar && tv.IsField() {
				// a field selection x.name also carries an identifier called `name`:
				// that is not the variable `name`
				continue
			}
			if b == h && before >= 0 {
				if ii >= before {
					continue
				}
			} else if b == h {
				// inside the header only refs to values defined before the header count
				if vi, ok := d.X.(ssa.Instruction); ok && vi.Block() == h {
					if _, isPhi := d.X.(*ssa.Phi); !isPhi {
						continue
					}
				}
			}
			if best == nil || best.Block().Dominates(b) {
				best = d
			}
		}
	}
	if best != nil {
		if best.IsAddr {
			l := f.getLoc(best.X)
			ty := best.X.Type().Underlying().(*types.Pointer).Elem()
			return mk(f.load(l, st), ty)
		}
		if phi, ok := best.X.(*ssa.Phi); ok && phis != nil {
			if t, ok := phis[phi]; ok {
				return mk(t, phi.Type())
			}
		}
		return mk(f.val(best.X), best.X.Type())
	}
	// 3. a local variable kept in memory (named results in functions with defer, address-taken
	// locals): the Alloc carries the variable name
	for _, b := range f.fn.Blocks {
		if !(b == h || b.Dominates(h)) {
			continue
		}
		for _, instr := range b.Instrs {
			if a, ok := instr.(*ssa.Alloc); ok && a.Comment == name {
				if _, known := f.locs[a]; known || f.vals[a] != "" {
					l := f.getLoc(a)
					return mk(f.load(l, st), a.Type().Underlying().(*types.Pointer).Elem())
				}
			}
		}
	}
	return SVal{}, false
}

// verifyFunction generates all obligations for one function under contract.
func verifyFunction(prog *Program, db *SpecDB, con *Contract) (res *FuncResult) {
	if con.BitVector {
		return verifyBV(prog, db, con)
	}
	res = &FuncResult{Name: con.Name, Contract: con}
	fn := prog.Funcs[con.Name]
	if fn == nil {
		res.Err = "function not found in the current tree"
		return
	}
	vc := newVC(prog, db, con.Name)
	res.VC = vc
	defer func() {
		if r := recover(); r != nil {
			switch e := r.(type) {
			case unsupportedErr:
				res.Err = "unsupported: " + e.msg
			case specErr:
				res.Err = "spec error: " + e.msg
			default:
				panic(r)
			}
		}
	}()
	vc.registerVar("alloc", "Int")
	for _, g := range db.GhostList {
		// ghosts whose type lives in a package that is not loaded for this property are
		// simply not part of this function's state
		func() {
			defer func() {
				if r := recover(); r != nil {
					if _, ok := r.(specErr); !ok {
						panic(r)
					}
				}
			}()
			gv := db.Ghosts[g]
			ty := vc.resolveType(gv.Type, vc.pkgByRel(gv.Pkg))
			vc.registerVar("g:"+g, ty.Sort)
		}()
	}
	vc.emitAxioms()
	f := vc.newFrame(fn, nil)
	f.contract = con
	f.top = true
	res.Frame = f
	vc.stack = []string{con.Name}
	st := &State{vars: map[string]Term{}, epoch: 0, pc: "true"}
	a0 := vc.get(st, "alloc")
	vc.assume(fmt.Sprintf("(>= %s 0)", a0))
	for _, p := range fn.Params {
		t := vc.fresh("p_"+p.Name(), vc.sorts.sortOf(p.Type()))
		f.vals[p] = t
		f.params = append(f.params, t)
		f.assumeTyped(p.Type(), t, st)
	}
	f.entry = st.clone()
	// requires
	env := f.baseEnv(st)
	env.old = nil
	var reqs []Term
	for _, c := range con.Requires {
		reqs = append(reqs, f.evalClause(env, c, con))
	}
	for _, l := range con.Lemmas {
		reqs = append(reqs, vc.lemmaInstance(l, env))
	}
	var punless []Term
	for _, c := range con.PanicsUnless {
		t := f.evalClause(env, c, con)
		if con.PanicsNever {
			reqs = append(reqs, t) // caller must establish it
		} else {
			punless = append(punless, vc.define("punless", "Bool", t))
		}
	}
	st.pc = vc.define("pc", "Bool", andT(reqs...))
	vc.addObl(&Obligation{Name: con.Name + "/requires-sat", Kind: "cover", Props: con.Props, PC: st.pc, ExpectSat: true, Src: "vacuity guard"})
	f.headerSt[fn.Blocks[0]] = st
	f.run(nil)
	// returns
	rn := resultNames(fn.Signature)
	for k, r := range f.rets {
		post := f.baseEnv(r.st)
		for i, t := range r.results {
			sv := SVal{t, post.goST(fn.Signature.Results().At(i).Type())}
			post.names[rn[i]] = sv
			post.names[fmt.Sprintf("result%d", i)] = sv
			if len(r.results) == 1 {
				post.names["result"] = sv
			}
		}
		vc.addObl(&Obligation{Name: fmt.Sprintf("%s/cover/return#%d", con.Name, k), Kind: "cover", Props: con.Props, PC: r.st.pc, ExpectSat: true, Soft: true, Src: "return site reachable"})
		for i, pu := range punless {
			c := con.PanicsUnless[i]
			label := c.Label
			if label == "" {
				label = fmt.Sprint(i)
			}
			// a normal return implies the entry condition held (otherwise the function must have panicked)
			vc.addObl(&Obligation{Name: fmt.Sprintf("%s/panics-unless[%s]/return#%d", con.Name, label, k), Kind: "panics-unless",
				Props: c.Props, PC: r.st.pc, Goal: pu, Src: c.Src})
			r.st.pc = vc.define("pc", "Bool", andT(r.st.pc, pu))
		}
		// call bookkeeping of this function itself (so that its own ensures / frame see it)
		f.applyLogs(con, post, r.st)
		for i, c := range con.Ensures {
			label := c.Label
			if label == "" {
				label = fmt.Sprint(i)
			}
			if c.Assumed {
				// ghost-linking clause: assumed at call sites, not an obligation of the body
				continue
			}
			goal := f.evalClause(post, c, con)
			vc.addObl(&Obligation{Name: fmt.Sprintf("%s/ensures[%s]/return#%d", con.Name, label, k), Kind: "ensures",
				Props: c.Props, PC: r.st.pc, Goal: goal, Src: c.Src})
		}
		f.frameObligations(con, r.st, k)
	}
	if len(f.rets) > 0 {
		var pcs []Term
		for _, r := range f.rets {
			pcs = append(pcs, r.st.pc)
		}
		vc.addObl(&Obligation{Name: con.Name + "/cover/any-return", Kind: "cover", Props: con.Props, PC: orT(pcs...), ExpectSat: true, Src: "some return site reachable (vacuity guard over the whole background)"})
	}
	if len(f.rets) == 0 {
		vc.unsupported = append(vc.unsupported, "function has no reachable return")
	}
	for _, p := range con.Props {
		if p == "C12" {
			// summary obligation: the translated body (with every inlined callee) contains no call
			// to a local clock, random source or the process environment; individual reachable
			// sites, if any, have their own obligations
			goal := "true"
			if len(vc.nondetSites) > 0 {
				goal = "false"
			}
			vc.addObl(&Obligation{Name: con.Name + "/deterministic/no-local-source", Kind: "determinism", Props: con.Props,
				PC: "true", Goal: goal, Src: fmt.Sprintf("calls to time.Now/rand/os.Getenv in the executed body: %v", vc.nondetSites)})
		}
	}
	vc.reveal(con.Reveal)
	vc.finalizeAxioms()
	res.Obligations = vc.obls
	return
}

// frameObligations: every heap / ghost not named in `modifies` is unchanged on return
// (for objects that existed at entry).
func (f *Frame) frameObligations(con *Contract, st *State, k int) {
	vc := f.vc
	if !con.HasModifies && !con.Pure {
		return // no frame claimed
	}
	modGhost := map[string]bool{}
	all, heapAll := false, false
	type exc struct {
		heap string
		ref  Term
	}
	var excs []exc
	env := f.baseEnv(f.entry)
	for _, m := range con.Modifies {
		switch m.Kind {
		case "all":
			all = true
		case "heap":
			heapAll = true
		case "ghost":
			modGhost["g:"+m.Name] = true
		case "deref":
			p := env.eval(m.Expr)
			pt := goUnder(p.Ty).(*types.Pointer)
			h := vc.sorts.objHeap(pt.Elem())
			if at, ok := pt.Elem().Underlying().(*types.Array); ok {
				h = vc.sorts.elemHeap(at.Elem())
			}
			excs = append(excs, exc{h, p.T})
		case "elems":
			s := env.eval(m.Expr)
			sl := goUnder(s.Ty).(*types.Slice)
			excs = append(excs, exc{vc.sorts.elemHeap(sl.Elem()), sref(s.T)})
		}
	}
	if all {
		return
	}
	a0 := vc.get(f.entry, "alloc")
	names := append([]string{}, vc.varList...)
	sort.Strings(names)
	for _, name := range names {
		if name == "alloc" || strings.HasPrefix(name, "c:") {
			continue
		}
		before, after := vc.get(f.entry, name), vc.get(st, name)
		if before == after {
			continue
		}
		if strings.HasPrefix(name, "g:") {
			if modGhost[name] {
				continue
			}
			vc.addObl(&Obligation{Name: fmt.Sprintf("%s/frame[%s]/return#%d", con.Name, name, k), Kind: "frame", Props: con.Props,
				PC: st.pc, Goal: eqT(before, after), Src: "ghost " + name[2:] + " not in modifies"})
			continue
		}
		if heapAll {
			continue
		}
		var conds []Term
		conds = append(conds, "(<= r "+a0+")")
		for _, e := range excs {
			if e.heap == name {
				conds = append(conds, fmt.Sprintf("(not (= r %s))", e.ref))
			}
		}
		goal := fmt.Sprintf("(forall ((r Int)) (=> %s (= (select %s r) (select %s r))))", andT(conds...), after, before)
		vc.addObl(&Obligation{Name: fmt.Sprintf("%s/frame[%s]/return#%d", con.Name, unq(name), k), Kind: "frame", Props: con.Props,
			PC: st.pc, Goal: goal, Src: "heap " + unq(name) + " unchanged outside modifies"})
	}
}

// reveal adds the defining axiom of opaque pure functions to this VC.
func (vc *VC) reveal(names []string) {
	for _, name := range names {
		if name == "go_div" || name == "go_mod" {
			if !vc.pureDecl["reveal:go_div"] {
				vc.pureDecl["reveal:go_div"] = true
				vc.axiomDecls = append(vc.axiomDecls, goDivDef)
				vc.axiomNames = append(vc.axiomNames, "reveal:go_div")
			}
			continue
		}
		pf := vc.db.Pures[name]
		if pf == nil || pf.Def == nil {
			specFail("reveal: %s is not an opaque pure function", name)
		}
		pkg := vc.pkgByRel(pf.Pkg)
		env := &SpecEnv{vc: vc, names: map[string]SVal{}, pkg: pkg}
		var binds, args []string
		for _, p := range pf.Params {
			ty := vc.resolveType(p.Type, pkg)
			vc.n++
			q := smtSym(fmt.Sprintf("rv_%s!%d", p.Name, vc.n))
			binds = append(binds, fmt.Sprintf("(%s %s)", q, ty.Sort))
			args = append(args, q)
			env.names[p.Name] = SVal{q, ty}
		}
		vc.declarePure(pf)
		vc.usedPures[name] = true
		body := env.eval(pf.Def)
		call := fmt.Sprintf("(%s %s)", smtSym("pure:"+name), strings.Join(args, " "))
		vc.axiomDecls = append(vc.axiomDecls, fmt.Sprintf("(assert (forall (%s) (! (= %s %s) :pattern (%s))))", strings.Join(binds, " "), call, body.T, call))
		vc.axiomNames = append(vc.axiomNames, "reveal:"+name)
	}
}

// lemmaInstance evaluates "lemmaName(args)" into the lemma's statement instance.
func (vc *VC) lemmaInstance(text string, env *SpecEnv) Term {
	e, err := parseSpecExpr(text)
	if err != nil {
		specFail("bad lemma use %q: %v", text, err)
	}
	call, ok := e.(*SCall)
	if !ok {
		specFail("bad lemma use %q", text)
	}
	lm := vc.db.Lemmas[call.Fn]
	if lm == nil {
		specFail("unknown lemma %s", call.Fn)
	}
	c := env.child()
	pkg := vc.pkgByRel(lm.Pkg)
	for i, p := range lm.Params {
		a := env.eval(call.Args[i])
		ty := vc.resolveType(p.Type, pkg)
		c.names[p.Name] = SVal{c.coerce(a, ty), ty}
	}
	c.resolver = nil
	var pre, post []Term
	for _, r := range lm.Requires {
		pre = append(pre, c.evalBool(r.Expr))
	}
	for _, r := range lm.Ensures {
		post = append(post, c.evalBool(r.Expr))
	}
	return impT(andT(pre...), andT(post...))
}

// verifyLemma produces the obligations for a lemma (optionally by induction on an int parameter).
func verifyLemma(prog *Program, db *SpecDB, lm *Lemma) (res *FuncResult) {
	res = &FuncResult{Name: "lemma:" + lm.Name}
	vc := newVC(prog, db, res.Name)
	res.VC = vc
	defer func() {
		if r := recover(); r != nil {
			switch e := r.(type) {
			case unsupportedErr:
				res.Err = "unsupported: " + e.msg
			case specErr:
				res.Err = "spec error: " + e.msg
			default:
				panic(r)
			}
		}
	}()
	vc.registerVar("alloc", "Int")
	vc.emitAxioms()
	pkg := vc.pkgByRel(lm.Pkg)
	st := &State{vars: map[string]Term{}, pc: "true"}
	env := &SpecEnv{vc: vc, names: map[string]SVal{}, st: st, pkg: pkg}
	for _, p := range lm.Params {
		ty := vc.resolveType(p.Type, pkg)
		c := vc.fresh("l_"+p.Name, ty.Sort)
		env.names[p.Name] = SVal{c, ty}
		if ty.Go != nil {
			for _, fact := range vc.sorts.typeFacts(ty.Go, c, 2) {
				vc.assume(fact)
			}
		}
	}
	var pre, post []Term
	for _, r := range lm.Requires {
		pre = append(pre, env.evalBool(r.Expr))
	}
	for _, r := range lm.Ensures {
		post = append(post, env.evalBool(r.Expr))
	}
	if lm.Induct != "" {
		// induction hypothesis: the lemma for all smaller non-negative values of the induction variable
		iv, ok := env.names[lm.Induct]
		if !ok {
			specFail("lemma %s: unknown induction variable %s", lm.Name, lm.Induct)
		}
		c := env.child()
		var binds []string
		for _, p := range lm.Params {
			ty := vc.resolveType(p.Type, pkg)
			vc.n++
			qn := smtSym(fmt.Sprintf("ih_%s!%d", p.Name, vc.n))
			binds = append(binds, fmt.Sprintf("(%s %s)", qn, ty.Sort))
			c.names[p.Name] = SVal{qn, ty}
		}
		var ipre, ipost []Term
		for _, r := range lm.Requires {
			ipre = append(ipre, c.evalBool(r.Expr))
		}
		for _, r := range lm.Ensures {
			ipost = append(ipost, c.evalBool(r.Expr))
		}
		small := fmt.Sprintf("(and (<= 0 %s) (< %s %s))", c.names[lm.Induct].T, c.names[lm.Induct].T, iv.T)
		vc.assume(fmt.Sprintf("(forall (%s) (=> %s %s))", strings.Join(binds, " "), andT(append([]Term{small}, ipre...)...), andT(ipost...)))
	}
	pc := andT(pre...)
	vc.addObl(&Obligation{Name: res.Name + "/requires-sat", Kind: "cover", Props: lm.Props, PC: pc, ExpectSat: true, Src: "vacuity guard"})
	for i, r := range lm.Ensures {
		vc.addObl(&Obligation{Name: fmt.Sprintf("%s/ensures[%d]", res.Name, i), Kind: "lemma", Props: lm.Props, PC: pc, Goal: post[i], Src: r.Src})
	}
	vc.reveal(lm.Reveal)
	vc.finalizeAxioms()
	res.Obligations = vc.obls
	return
}

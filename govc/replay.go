package main

import (
	"context"
	"encoding/json"
	"fmt"
	"go/types"
	"os"
	"os/exec"
	"path/filepath"
	"regexp"
	"strings"
	"time"

	"golang.org/x/tools/go/ssa"
)

// Counterexample replay. For a failed obligation whose solver answer is `sat`, the values the
// model assigns to the function's inputs (and the outputs the model predicts for them) are read
// back with (get-value ...), turned into a Go test in the function's own package, and run on the
// REAL code through `go test -overlay` (nothing is written into the repository).
//
//	confirmed  the real function, run on the model's inputs, returned exactly the outputs the
//	           model predicted - the outputs for which the clause is false - (or, for a
//	           panic obligation, panicked): a concrete failing input on the real code
//	diverged   the real function behaved differently from the model (the counterexample is an
//	           artefact of an abstraction): reported as no-failing-input-found
//
// Only functions whose parameters and results are of "constructible" types are replayed:
// booleans, integers, byte slices, BigInt/BigDec (package types) and error results. Everything
// else (interfaces, keepers, contexts, ghost state in the clause) is reported without replay.

var retRe = regexp.MustCompile(`/return#(\d+)$`)

type rvKind int

const (
	rvInt rvKind = iota
	rvBool
	rvBytes
	rvBig
	rvErr
)

type rvSpec struct {
	kind rvKind
	goT  string // Go type text usable inside the function's package
	term Term
	// query terms (filled by plan)
	q []Term
	// for rvBig: name of the struct field selector applied
}

func goTypeText(t types.Type, pkg *types.Package) (string, bool) {
	ok := true
	s := types.TypeString(t, func(p *types.Package) string {
		if p == pkg {
			return ""
		}
		ok = false
		return p.Name()
	})
	return s, ok
}

func isBigStruct(t types.Type) bool {
	nt, ok := t.(*types.Named)
	if !ok || nt.Obj().Pkg() == nil {
		return false
	}
	if nt.Obj().Pkg().Path() != repoMod+"/types" {
		return false
	}
	return nt.Obj().Name() == "BigInt" || nt.Obj().Name() == "BigDec"
}

func classify(t types.Type, pkg *types.Package, result bool) (rvKind, string, bool) {
	txt, same := goTypeText(t, pkg)
	if isBigStruct(t) {
		if !same {
			return 0, "", false
		}
		return rvBig, txt, true
	}
	switch u := t.Underlying().(type) {
	case *types.Basic:
		if !same {
			return 0, "", false
		}
		if u.Info()&types.IsBoolean != 0 {
			return rvBool, txt, true
		}
		if u.Info()&types.IsInteger != 0 {
			return rvInt, txt, true
		}
	case *types.Slice:
		if b, ok := u.Elem().Underlying().(*types.Basic); ok && b.Kind() == types.Uint8 && same {
			return rvBytes, txt, true
		}
	case *types.Interface:
		if result && (txt == "error" || strings.HasSuffix(txt, "Error")) {
			return rvErr, txt, true
		}
	}
	return 0, "", false
}

// getValues runs z3 on the obligation's script with (get-value ...) for the given terms.
func getValues(script string, terms []Term) (map[Term]string, bool) {
	if len(terms) == 0 {
		return map[Term]string{}, true
	}
	s := strings.Replace(script, "(get-model)\n", "", 1)
	s += "(get-value (" + strings.Join(terms, " ") + "))\n"
	ctx, cancel := context.WithTimeout(context.Background(), 40*time.Second)
	defer cancel()
	cmd := exec.CommandContext(ctx, "z3-new", "-in", "-T:30")
	cmd.Stdin = strings.NewReader(s)
	out, _ := cmd.CombinedOutput()
	text := string(out)
	if !strings.HasPrefix(strings.TrimSpace(text), "sat") {
		return nil, false
	}
	rest := strings.TrimSpace(strings.TrimPrefix(strings.TrimSpace(text), "sat"))
	es := sxParse(sxTokens(rest))
	if len(es) == 0 || es[0].isAtom() {
		return nil, false
	}
	res := map[Term]string{}
	pairs := es[0].list
	if len(pairs) != len(terms) {
		return nil, false
	}
	for i, p := range pairs {
		if p.isAtom() || len(p.list) != 2 {
			return nil, false
		}
		var b strings.Builder
		p.list[1].write(&b)
		res[terms[i]] = b.String()
	}
	return res, true
}

func parseSmtInt(v string) (string, bool) {
	v = strings.TrimSpace(v)
	if numRe.MatchString(v) {
		return v, true
	}
	if strings.HasPrefix(v, "(- ") && strings.HasSuffix(v, ")") {
		n := strings.TrimSpace(v[3 : len(v)-1])
		if numRe.MatchString(n) {
			return "-" + n, true
		}
	}
	return "", false
}

type replayValue struct {
	spec   rvSpec
	intV   string
	boolV  bool
	isNil  bool
	bytes  []string
	bigPtr string
	bigVal string
}

// readValue evaluates one parameter/result in the model. byteHeap / bigv are the state terms to read through.
func readValue(script string, sp rvSpec, S *Sorts, t types.Type, byteHeap, bigv Term) (*replayValue, bool) {
	rv := &replayValue{spec: sp}
	switch sp.kind {
	case rvInt:
		m, ok := getValues(script, []Term{sp.term})
		if !ok {
			return nil, false
		}
		rv.intV, ok = parseSmtInt(m[sp.term])
		return rv, ok
	case rvBool:
		m, ok := getValues(script, []Term{sp.term})
		if !ok {
			return nil, false
		}
		rv.boolV = m[sp.term] == "true"
		return rv, m[sp.term] == "true" || m[sp.term] == "false"
	case rvErr:
		q := fmt.Sprintf("(= %s Iface_nil)", sp.term)
		m, ok := getValues(script, []Term{q})
		if !ok {
			return nil, false
		}
		rv.isNil = m[q] == "true"
		return rv, true
	case rvBytes:
		ref, off, ln := fmt.Sprintf("(Slice_ref %s)", sp.term), fmt.Sprintf("(Slice_off %s)", sp.term), fmt.Sprintf("(Slice_len %s)", sp.term)
		m, ok := getValues(script, []Term{ref, off, ln})
		if !ok {
			return nil, false
		}
		r, ok1 := parseSmtInt(m[ref])
		l, ok2 := parseSmtInt(m[ln])
		if !ok1 || !ok2 {
			return nil, false
		}
		var n int
		fmt.Sscan(l, &n)
		if n < 0 || n > 256 {
			return nil, false
		}
		rv.isNil = r == "0"
		var qs []Term
		for i := 0; i < n; i++ {
			qs = append(qs, fmt.Sprintf("(select (select %s %s) (sidx %s %d))", byteHeap, ref, off, i))
		}
		mv, ok := getValues(script, qs)
		if !ok {
			return nil, false
		}
		for _, q := range qs {
			v, ok := parseSmtInt(mv[q])
			if !ok {
				return nil, false
			}
			rv.bytes = append(rv.bytes, v)
		}
		return rv, true
	case rvBig:
		ptr := S.fieldGet(t, 0, sp.term)
		val := fmt.Sprintf("(select %s %s)", bigv, ptr)
		m, ok := getValues(script, []Term{ptr, val})
		if !ok {
			return nil, false
		}
		var ok1, ok2 bool
		rv.bigPtr, ok1 = parseSmtInt(m[ptr])
		rv.bigVal, ok2 = parseSmtInt(m[val])
		rv.isNil = rv.bigPtr == "0"
		return rv, ok1 && ok2
	}
	return nil, false
}

func (rv *replayValue) describe() string {
	switch rv.spec.kind {
	case rvInt:
		return rv.intV
	case rvBool:
		return fmt.Sprint(rv.boolV)
	case rvErr:
		if rv.isNil {
			return "nil"
		}
		return "non-nil"
	case rvBytes:
		if rv.isNil {
			return "nil"
		}
		return "[" + strings.Join(rv.bytes, " ") + "]"
	case rvBig:
		if rv.isNil {
			return "<nil big.Int>"
		}
		return rv.bigVal
	}
	return "?"
}

// tryReplay returns (replay file path, confirmed).
func tryReplay(prog *Program, r *FuncResult, o *Obligation, prop string) (string, bool) {
	if os.Getenv("GOVC_NO_REPLAY") != "" || o.Result != "sat" || r.Frame == nil || o.ExpectSat {
		return "", false
	}
	wantPanic := strings.Contains(o.Kind, "panic")
	if o.Kind != "ensures" && !wantPanic {
		return "", false
	}
	f := r.Frame
	fn := f.fn
	if fn.Pkg == nil || fn.Parent() != nil {
		return "", false
	}
	pkg := fn.Pkg.Pkg
	if !strings.HasPrefix(pkg.Path(), repoMod) {
		return "", false
	}
	vc := r.VC
	S := vc.sorts
	// the clause must not depend on ghost state or uninterpreted specification functions other
	// than the big-integer value map: otherwise the model's interpretation of those decides it
	goal := o.Goal
	for _, bad := range []string{"|g:", "g_", "|pure:"} {
		for _, part := range strings.Split(goal, bad)[1:] {
			if bad == "|g:" && strings.HasPrefix(part, "bigv") {
				continue
			}
			if bad == "g_" && strings.HasPrefix(part, "bigv") {
				continue
			}
			if bad == "|pure:" && (strings.HasPrefix(part, "rhe|") || strings.HasPrefix(part, "rheNN|") || strings.HasPrefix(part, "inBig|") || strings.HasPrefix(part, "inDec|") || strings.HasPrefix(part, "pow2|")) {
				continue
			}
			return "", false
		}
	}
	// parameters
	entryBytes := vc.get(f.entry, vc.heapVar(S.elemHeap(types.Typ[types.Uint8])))
	entryBig := Term("")
	if _, ok := vc.varSort["g:bigv"]; ok {
		entryBig = vc.get(f.entry, "g:bigv")
	}
	var params []*replayValue
	for i, p := range fn.Params {
		k, txt, ok := classify(p.Type(), pkg, false)
		if !ok || (k == rvBig && entryBig == "") {
			return "", false
		}
		rv, ok := readValue(o.Script, rvSpec{kind: k, goT: txt, term: f.params[i]}, S, p.Type(), entryBytes, entryBig)
		if !ok {
			return "", false
		}
		params = append(params, rv)
	}
	// predicted results
	var results []*replayValue
	nres := fn.Signature.Results().Len()
	if !wantPanic {
		m := retRe.FindStringSubmatch(o.Name)
		if m == nil {
			return "", false
		}
		var k int
		fmt.Sscan(m[1], &k)
		if k >= len(f.rets) {
			return "", false
		}
		ret := f.rets[k]
		postBytes := vc.get(ret.st, vc.heapVar(S.elemHeap(types.Typ[types.Uint8])))
		postBig := Term("")
		if entryBig != "" {
			postBig = vc.get(ret.st, "g:bigv")
		}
		for i := 0; i < nres; i++ {
			rt := fn.Signature.Results().At(i).Type()
			kd, txt, ok := classify(rt, pkg, true)
			if !ok || (kd == rvBig && postBig == "") {
				return "", false
			}
			rv, ok := readValue(o.Script, rvSpec{kind: kd, goT: txt, term: ret.results[i]}, S, rt, postBytes, postBig)
			if !ok {
				return "", false
			}
			results = append(results, rv)
		}
	}
	src := buildReplayTest(fn, pkg, params, results, wantPanic)
	dir, err := os.MkdirTemp("", "govc_replay_")
	if err != nil {
		return "", false
	}
	defer os.RemoveAll(dir)
	testFile := filepath.Join(dir, "zz_govc_replay_test.go")
	os.WriteFile(testFile, []byte(src), 0o644)
	rel := strings.TrimPrefix(strings.TrimPrefix(pkg.Path(), repoMod), "/")
	target := filepath.Join(repoDir, rel, "zz_govc_replay_test.go")
	ov, _ := json.Marshal(map[string]map[string]string{"Replace": {target: testFile}})
	ovFile := filepath.Join(dir, "overlay.json")
	os.WriteFile(ovFile, ov, 0o644)
	ctx, cancel := context.WithTimeout(context.Background(), 300*time.Second)
	defer cancel()
	cmd := exec.CommandContext(ctx, "go", "test", "-tags", "", "-overlay", ovFile, "-vet=off", "-count=1", "-timeout", "120s", "-run", "^TestGovcReplay$", "-v", "./"+rel+"/")
	cmd.Dir = repoDir
	cmd.Env = append(os.Environ(), "GOFLAGS=-mod=mod", "GOPROXY=off", "GOSUMDB=off", "GOTOOLCHAIN=local")
	out, _ := cmd.CombinedOutput()
	text := string(out)
	confirmed := strings.Contains(text, "REPLAY-RESULT: confirmed")
	var in []string
	for i, p := range params {
		in = append(in, fmt.Sprintf("%s=%s", fn.Params[i].Name(), p.describe()))
	}
	var outs []string
	for _, rv := range results {
		outs = append(outs, rv.describe())
	}
	verdict := "diverged (the real code does not reproduce the model: no failing input established)"
	if confirmed {
		verdict = "CONFIRMED on the real code"
	}
	os.MkdirAll(filepath.Join(outDir, "replays"), 0o755)
	path := filepath.Join(outDir, "replays", fmt.Sprintf("%s_replay_%s.txt", prop, sanitize(o.Name)))
	body := fmt.Sprintf("property: %s\nfailed obligation: %s\nclause: %s\nsolver: %s result: sat\n\ncounterexample inputs: %s\noutputs predicted by the model (for which the clause is false): %s\nexpect panic: %v\nreplay verdict: %s\n\n---- generated test (run in-package through go test -overlay) ----\n%s\n---- go test output ----\n%s\n\nsolver model:\n%s\n\nSMT-LIB query:\n%s\n",
		prop, o.Name, o.Src, o.Solver, strings.Join(in, ", "), strings.Join(outs, ", "), wantPanic, verdict, src, truncate(text, 6000), truncate(o.Model, 6000), o.Script)
	os.WriteFile(path, []byte(body), 0o644)
	return path, confirmed
}

func sanitize(s string) string {
	return regexp.MustCompile(`[^A-Za-z0-9_.-]+`).ReplaceAllString(s, "_")
}

func goLit(rv *replayValue, name string, pre *[]string, bigVars map[string]string) string {
	switch rv.spec.kind {
	case rvInt:
		return fmt.Sprintf("%s(%s)", rv.spec.goT, rv.intV)
	case rvBool:
		return fmt.Sprintf("%s(%v)", rv.spec.goT, rv.boolV)
	case rvBytes:
		if rv.isNil {
			return fmt.Sprintf("%s(nil)", rv.spec.goT)
		}
		return fmt.Sprintf("%s([]byte{%s})", rv.spec.goT, strings.Join(rv.bytes, ", "))
	case rvBig:
		if rv.isNil {
			return rv.spec.goT + "{}"
		}
		v, ok := bigVars[rv.bigPtr]
		if !ok {
			v = "big_" + name
			bigVars[rv.bigPtr] = v
			*pre = append(*pre, fmt.Sprintf("%s, _ := new(big.Int).SetString(%q, 10)", v, rv.bigVal))
		}
		return fmt.Sprintf("%s{i: %s}", rv.spec.goT, v)
	}
	return "nil"
}

func buildReplayTest(fn *ssa.Function, pkg *types.Package, params, results []*replayValue, wantPanic bool) string {
	var b strings.Builder
	fmt.Fprintf(&b, "package %s\n\nimport (\n\t\"fmt\"\n\t\"math/big\"\n\t\"testing\"\n)\n\n", pkg.Name())
	b.WriteString("// generated by govc: replays a solver counterexample on the real function\n")
	b.WriteString("func TestGovcReplay(t *testing.T) {\n\t_ = big.NewInt\n")
	var pre []string
	bigVars := map[string]string{}
	var args []string
	for i, p := range params {
		args = append(args, goLit(p, fmt.Sprintf("p%d", i), &pre, bigVars))
	}
	for _, l := range pre {
		b.WriteString("\t" + l + "\n")
	}
	call := ""
	if fn.Signature.Recv() != nil {
		call = fmt.Sprintf("(%s).%s(%s)", args[0], fn.Name(), strings.Join(args[1:], ", "))
	} else {
		call = fmt.Sprintf("%s(%s)", fn.Name(), strings.Join(args, ", "))
	}
	nres := fn.Signature.Results().Len()
	var rnames []string
	for i := 0; i < nres; i++ {
		rnames = append(rnames, fmt.Sprintf("r%d", i))
		t, _ := goTypeText(fn.Signature.Results().At(i).Type(), pkg)
		fmt.Fprintf(&b, "\tvar r%d %s\n", i, t)
	}
	b.WriteString("\tpanicked := func() (p bool) {\n\t\tdefer func() {\n\t\t\tif r := recover(); r != nil {\n\t\t\t\tp = true\n\t\t\t\tfmt.Println(\"REPLAY-PANIC:\", r)\n\t\t\t}\n\t\t}()\n")
	if nres > 0 {
		fmt.Fprintf(&b, "\t\t%s = %s\n", strings.Join(rnames, ", "), call)
	} else {
		fmt.Fprintf(&b, "\t\t%s\n", call)
	}
	b.WriteString("\t\treturn false\n\t}()\n")
	if wantPanic {
		b.WriteString("\tif panicked {\n\t\tfmt.Println(\"REPLAY-RESULT: confirmed\")\n\t} else {\n\t\tfmt.Println(\"REPLAY-RESULT: diverged (no panic)\")\n\t}\n}\n")
		return b.String()
	}
	b.WriteString("\tif panicked {\n\t\tfmt.Println(\"REPLAY-RESULT: diverged (panic)\")\n\t\treturn\n\t}\n\tok := true\n")
	for i, rv := range results {
		switch rv.spec.kind {
		case rvInt:
			fmt.Fprintf(&b, "\tif fmt.Sprint(r%d) != %q {\n\t\tok = false\n\t}\n", i, rv.intV)
		case rvBool:
			fmt.Fprintf(&b, "\tif bool(r%d) != %v {\n\t\tok = false\n\t}\n", i, rv.boolV)
		case rvErr:
			fmt.Fprintf(&b, "\tif (r%d == nil) != %v {\n\t\tok = false\n\t}\n", i, rv.isNil)
		case rvBytes:
			if rv.isNil {
				fmt.Fprintf(&b, "\tif r%d != nil {\n\t\tok = false\n\t}\n", i)
			} else {
				fmt.Fprintf(&b, "\tif r%d == nil || fmt.Sprint([]byte(r%d)) != %q {\n\t\tok = false\n\t}\n", i, i, "["+strings.Join(rv.bytes, " ")+"]")
			}
		case rvBig:
			if rv.isNil {
				fmt.Fprintf(&b, "\tif r%d.i != nil {\n\t\tok = false\n\t}\n", i)
			} else {
				fmt.Fprintf(&b, "\tif r%d.i == nil || r%d.i.String() != %q {\n\t\tok = false\n\t}\n", i, i, rv.bigVal)
			}
		}
		fmt.Fprintf(&b, "\tfmt.Printf(\"REPLAY-ACTUAL r%d = %%v\\n\", r%d)\n", i, i)
	}
	b.WriteString("\tif ok {\n\t\tfmt.Println(\"REPLAY-RESULT: confirmed\")\n\t} else {\n\t\tfmt.Println(\"REPLAY-RESULT: diverged (outputs differ from the model)\")\n\t}\n}\n")
	return b.String()
}

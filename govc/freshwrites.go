package main

import (
	"fmt"
	"go/types"
)

// Tracking of writes to heap objects that may have existed before a loop was entered.
// A heap that a loop body only extends with freshly allocated objects (make, new, string to
// []byte conversions) keeps all its old objects; at the loop header such a heap is havocked
// only above the allocation counter at loop entry.

// noteFresh records that ref was produced by an allocation, stamped with the fresh-name counter.
func (vc *VC) noteFresh(ref Term) {
	if vc.freshRefs == nil {
		vc.freshRefs = map[Term]int{}
	}
	vc.freshRefs[ref] = vc.n
}

func (vc *VC) noteOldWrite(h string) {
	if vc.oldWrites == nil {
		vc.oldWrites = map[string]bool{}
	}
	vc.oldWrites[h] = true
}

// isFreshRef: ref was allocated after the current loop discovery started.
func (vc *VC) isFreshRef(ref Term) bool {
	stamp, ok := vc.freshRefs[ref]
	return ok && vc.freshFloor > 0 && stamp > vc.freshFloor
}

// assumeHeapWF states the representation invariant of a heap holding slices or pointers:
// every reference stored in it has been allocated (<= alloc). It is assumed for heaps whose
// value is unknown (loop-header havoc); it holds in every reachable Go state.
func (vc *VC) assumeHeapWF(name string, heap Term, alloc Term) {
	t, ok := vc.sorts.heapType[name]
	if !ok {
		return
	}
	isElem := len(unq(name)) > 2 && unq(name)[:2] == "E:"
	var read, pat string
	if isElem {
		read = fmt.Sprintf("(select (select %s r) i)", heap)
		pat = "((r Int) (i Int))"
	} else if unq(name)[:2] == "H:" {
		read = fmt.Sprintf("(select %s r)", heap)
		pat = "((r Int))"
	} else {
		return
	}
	var fact string
	switch t.Underlying().(type) {
	case *types.Slice:
		fact = fmt.Sprintf("(and (<= 0 (Slice_ref %s)) (<= (Slice_ref %s) %s) (<= 0 (Slice_off %s)) (<= 0 (Slice_len %s)) (<= (Slice_len %s) (Slice_cap %s)))", read, read, alloc, read, read, read, read)
	case *types.Pointer, *types.Map:
		fact = fmt.Sprintf("(<= %s %s)", read, alloc)
	default:
		return
	}
	vc.assume(fmt.Sprintf("(forall %s (! %s :pattern (%s)))", pat, fact, read))
}

func fnvHash(s string) uint32 {
	h := uint32(2166136261)
	for i := 0; i < len(s); i++ {
		h ^= uint32(s[i])
		h *= 16777619
	}
	return h
}

package main

import (
	"regexp"
	"strings"
)

// ufNonlinear rewrites an SMT-LIB script so that every product of two or more non-literal
// factors becomes an application of the uninterpreted function umul, and every div/mod by a
// non-literal divisor an application of udiv/umod. Real multiplication/division is one
// interpretation of these symbols, so `unsat` of the rewritten script implies `unsat` of the
// original (the rewriting only forgets facts); `sat` means nothing and is reported as unknown.
// Purpose: "pipeline" obligations (a result equals a nested arithmetic term of the inputs) are
// pure congruence; the solvers' non-linear arithmetic makes them time out unpredictably.

type sx struct {
	atom string
	list []*sx
}

func sxTokens(s string) []string {
	var out []string
	n := len(s)
	for i := 0; i < n; {
		c := s[i]
		switch {
		case c == '(' || c == ')':
			out = append(out, string(c))
			i++
		case c == ' ' || c == '\n' || c == '\t' || c == '\r':
			i++
		case c == '|':
			j := strings.IndexByte(s[i+1:], '|')
			if j < 0 {
				j = n - i - 2
			}
			out = append(out, s[i:i+j+2])
			i += j + 2
		case c == '"':
			j := i + 1
			for j < n {
				if s[j] == '"' {
					if j+1 < n && s[j+1] == '"' {
						j += 2
						continue
					}
					break
				}
				j++
			}
			out = append(out, s[i:j+1])
			i = j + 1
		case c == ';':
			j := strings.IndexByte(s[i:], '\n')
			if j < 0 {
				i = n
			} else {
				i += j
			}
		default:
			j := i
			for j < n && s[j] != '(' && s[j] != ')' && s[j] != ' ' && s[j] != '\n' && s[j] != '\t' && s[j] != '\r' {
				j++
			}
			out = append(out, s[i:j])
			i = j
		}
	}
	return out
}

func sxParse(toks []string) []*sx {
	stack := []*sx{{}}
	for _, t := range toks {
		switch t {
		case "(":
			stack = append(stack, &sx{list: []*sx{}})
		case ")":
			if len(stack) < 2 {
				continue
			}
			top := stack[len(stack)-1]
			stack = stack[:len(stack)-1]
			p := stack[len(stack)-1]
			p.list = append(p.list, top)
		default:
			p := stack[len(stack)-1]
			p.list = append(p.list, &sx{atom: t})
		}
	}
	return stack[0].list
}

var numRe = regexp.MustCompile(`^-?[0-9]+$`)

func (e *sx) isAtom() bool { return e.list == nil }
func (e *sx) isNum() bool {
	if e.isAtom() {
		return numRe.MatchString(e.atom)
	}
	return len(e.list) == 2 && e.list[0].isAtom() && e.list[0].atom == "-" && e.list[1].isAtom() && numRe.MatchString(e.list[1].atom)
}

func sxRewrite(e *sx) *sx {
	if e.isAtom() {
		return e
	}
	n := &sx{list: make([]*sx, len(e.list))}
	for i, x := range e.list {
		n.list[i] = sxRewrite(x)
	}
	if len(n.list) > 0 && n.list[0].isAtom() {
		switch n.list[0].atom {
		case "*":
			var nums, oth []*sx
			for _, a := range n.list[1:] {
				if a.isNum() {
					nums = append(nums, a)
				} else {
					oth = append(oth, a)
				}
			}
			if len(oth) >= 2 {
				r := oth[len(oth)-1]
				for i := len(oth) - 2; i >= 0; i-- {
					r = &sx{list: []*sx{{atom: "umul"}, oth[i], r}}
				}
				if len(nums) == 0 {
					return r
				}
				l := append([]*sx{{atom: "*"}}, nums...)
				return &sx{list: append(l, r)}
			}
		case "div", "mod":
			if len(n.list) == 3 && !n.list[2].isNum() {
				return &sx{list: []*sx{{atom: "u" + n.list[0].atom}, n.list[1], n.list[2]}}
			}
		}
	}
	return n
}

func (e *sx) write(b *strings.Builder) {
	if e.isAtom() {
		b.WriteString(e.atom)
		return
	}
	b.WriteByte('(')
	for i, x := range e.list {
		if i > 0 {
			b.WriteByte(' ')
		}
		x.write(b)
	}
	b.WriteByte(')')
}

func ufNonlinear(script string) string {
	es := sxParse(sxTokens(script))
	var b strings.Builder
	declared := false
	for _, e := range es {
		if !declared && !e.isAtom() && len(e.list) > 0 && e.list[0].isAtom() {
			switch e.list[0].atom {
			case "declare-fun", "declare-const", "define-fun", "assert", "declare-datatype", "declare-datatypes", "declare-sort":
				b.WriteString("(declare-fun umul (Int Int) Int)\n(declare-fun umod (Int Int) Int)\n(declare-fun udiv (Int Int) Int)\n")
				declared = true
			}
		}
		sxRewrite(e).write(&b)
		b.WriteByte('\n')
	}
	return b.String()
}

package main

import (
	"fmt"
	"os"
	"strings"
)

// cmdReplay re-runs the SMT query stored in a replay file (written by `check` for every
// reported violation) on the whole solver portfolio and prints each solver's verdict: the
// failed obligation is reproduced independently of the VC generator. When a solver answers
// `sat` its model (the values of the function's inputs and intermediate SSA values that violate
// the clause) is printed; turning that model into a Go test on the real function is not
// implemented for this revision, which is why violations carry `no-failing-input-found`.
func cmdReplay(args []string) int {
	if len(args) < 1 {
		usage()
	}
	b, err := os.ReadFile(args[0])
	if err != nil {
		fmt.Fprintln(os.Stderr, err)
		return 2
	}
	text := string(b)
	head := text
	script := ""
	if i := strings.Index(text, "SMT-LIB query:\n"); i >= 0 {
		head = text[:i]
		script = text[i+len("SMT-LIB query:\n"):]
	}
	for _, l := range strings.Split(head, "\n") {
		if strings.HasPrefix(l, "property:") || strings.HasPrefix(l, "failed obligation:") || strings.HasPrefix(l, "reason:") || strings.HasPrefix(l, "clause:") {
			fmt.Println(l)
		}
	}
	if strings.TrimSpace(script) == "" {
		fmt.Println("no SMT query in this replay file (the function could not be translated)")
		return 1
	}
	_, all := solveOne(script, 30, true)
	failed := true
	for _, o := range all {
		fmt.Printf("solver %-18s %-8s %6d ms\n", o.solver, o.result, o.ms)
		if o.result == "unsat" {
			failed = false
		}
		if o.result == "sat" {
			fmt.Println(truncate(o.output, 4000))
		}
	}
	if failed {
		fmt.Println("REPRODUCED: no solver discharges the obligation")
		return 1
	}
	fmt.Println("NOT REPRODUCED: a solver discharges the obligation on this run")
	return 0
}

package main

func cmdReplay(a []string) int { return 0 }

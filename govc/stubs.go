package main

func cmdSelftest(a []string) int { return 0 }
func cmdReplay(a []string) int   { return 0 }

package main

import (
	"bytes"
	"context"
	"os/exec"
	"strconv"
	"strings"
	"sync"
	"time"
)

type solverSpec struct {
	name string
	cmd  func(timeoutS int) []string
	// ufnl: run on the script with non-linear multiplication/division made uninterpreted
	// (see ufnl.go); only `unsat` is meaningful for such a configuration
	ufnl bool
	// unsatOnly: the configuration is incomplete for quantifiers (E-matching only): a `sat`
	// answer may come with a model that violates a quantified assumption, so only `unsat` counts
	unsatOnly bool
}

var solvers = []solverSpec{
	{name: "z3-5.1.0", cmd: func(t int) []string { return []string{"z3-new", "-in", "-T:" + itoa(t)} }},
	// E-matching only: the VCs carry explicit triggers; MBQI often diverges on them
	{name: "z3-5.1.0-ematch", cmd: func(t int) []string { return []string{"z3-new", "-in", "-T:" + itoa(t), "smt.mbqi=false"} }, unsatOnly: true},
	// congruence-only arithmetic: products of symbolic factors are uninterpreted
	{name: "z3-5.1.0-ufnl", cmd: func(t int) []string { return []string{"z3-new", "-in", "-T:" + itoa(t), "smt.mbqi=false"} }, ufnl: true},
	{name: "z3-4.8.12", cmd: func(t int) []string { return []string{"z3", "-in", "-T:" + itoa(t)} }},
	{name: "z3-4.8.12-ematch", cmd: func(t int) []string { return []string{"z3", "-in", "-T:" + itoa(t), "smt.mbqi=false"} }, unsatOnly: true},
	{name: "z3-4.8.12-ufnl", cmd: func(t int) []string { return []string{"z3", "-in", "-T:" + itoa(t), "smt.mbqi=false"} }, ufnl: true},
	{name: "cvc5-1.0", cmd: func(t int) []string {
		return []string{"cvc5", "--lang=smt2", "--tlimit=" + itoa(t*1000), "--produce-models", "-"}
	}},
}

func itoa(i int) string { return strconv.Itoa(i) }

type solveOutcome struct {
	result string // sat unsat unknown timeout error
	solver string
	ms     int64
	output string
}

func runSolver(ctx context.Context, s solverSpec, script string, timeoutS int) solveOutcome {
	args := s.cmd(timeoutS)
	cctx, cancel := context.WithTimeout(ctx, time.Duration(timeoutS+2)*time.Second)
	defer cancel()
	cmd := exec.CommandContext(cctx, args[0], args[1:]...)
	if s.ufnl {
		script = ufNonlinear(script)
	}
	cmd.Stdin = strings.NewReader(script)
	var out bytes.Buffer
	cmd.Stdout = &out
	cmd.Stderr = &out
	start := time.Now()
	_ = cmd.Run()
	ms := time.Since(start).Milliseconds()
	text := out.String()
	first := strings.TrimSpace(strings.SplitN(text, "\n", 2)[0])
	res := "error"
	switch {
	case first == "unsat":
		res = "unsat"
	case first == "sat":
		res = "sat"
		if s.ufnl || s.unsatOnly {
			res = "unknown" // a model of the weakened script / an E-matching-only model says nothing about the original
		}
	case first == "unknown":
		res = "unknown"
	case first == "timeout" || strings.Contains(first, "timeout") || strings.Contains(first, "interrupted") || cctx.Err() != nil:
		res = "timeout"
	}
	if ctx.Err() != nil && res == "error" {
		res = "timeout"
	}
	return solveOutcome{res, s.name, ms, text}
}

// solveOne decides an obligation with the solver portfolio. In quick mode the
// first definite answer wins (solvers are started staggered); in thorough mode
// all solvers run and definite answers must agree.
func solveOne(script string, timeoutS int, thorough bool) (final solveOutcome, all []solveOutcome) {
	ctx, cancel := context.WithCancel(context.Background())
	defer cancel()
	ch := make(chan solveOutcome, len(solvers))
	var wg sync.WaitGroup
	for i, s := range solvers {
		wg.Add(1)
		go func(i int, s solverSpec) {
			defer wg.Done()
			if !thorough && i > 0 {
				// stagger: give the first solver a head start
				select {
				case <-ctx.Done():
					ch <- solveOutcome{"timeout", s.name, 0, "cancelled"}
					return
				case <-time.After(time.Duration(400*i) * time.Millisecond):
				}
			}
			ch <- runSolver(ctx, s, script, timeoutS)
		}(i, s)
	}
	definite := func(r string) bool { return r == "sat" || r == "unsat" }
	got := 0
	nDef := 0
	for got < len(solvers) {
		o := <-ch
		got++
		all = append(all, o)
		if definite(o.result) {
			nDef++
			if !definite(final.result) {
				final = o
			}
			// quick: first definite answer wins. thorough: two definite answers from
			// different configurations are collected (and must agree, checked below);
			// waiting for every configuration would cost the full timeout per obligation.
			if !thorough || nDef >= 2 {
				cancel()
				go func() { wg.Wait() }()
				break
			}
		}
	}
	if !definite(final.result) {
		// prefer unknown over timeout over error for reporting
		for _, o := range all {
			if final.result == "" || rank(o.result) > rank(final.result) {
				final = o
			}
		}
		return final, all
	}
	if thorough {
		for _, o := range all {
			if definite(o.result) && o.result != final.result {
				final = solveOutcome{"error", "portfolio", o.ms, "solvers disagree: " + final.solver + "=" + final.result + " " + o.solver + "=" + o.result}
			}
		}
	}
	return final, all
}

func rank(r string) int {
	switch r {
	case "unknown":
		return 3
	case "timeout":
		return 2
	case "error":
		return 1
	}
	return 0
}

// discharge solves all obligations in parallel.
func discharge(results []*FuncResult, timeoutS int, thorough bool, workers int) {
	type job struct {
		vc *VC
		o  *Obligation
	}
	var jobs []job
	for _, r := range results {
		if r.VC == nil && !r.BV {
			continue
		}
		for _, o := range r.Obligations {
			jobs = append(jobs, job{r.VC, o})
		}
	}
	ch := make(chan job)
	var wg sync.WaitGroup
	// fail-fast for frame obligations: a change that makes a call abstract (everything havocked)
	// produces one failing frame obligation per heap and ghost; once a function has several failed
	// obligations the remaining FRAME obligations of that function are not sent to the solvers
	// (they are reported as failed, result "skipped") - the violation is already established
	var failMu sync.Mutex
	failed := map[string]int{}
	for w := 0; w < workers; w++ {
		wg.Add(1)
		go func() {
			defer wg.Done()
			for j := range ch {
				if j.o.Kind == "frame" {
					failMu.Lock()
					n := failed[j.o.Fn]
					failMu.Unlock()
					if n >= 6 {
						j.o.Result = "skipped"
						j.o.Solver = "none"
						j.o.Model = "not attempted: the function already has several failed obligations"
						continue
					}
				}
				script := j.o.RawScript
				if script == "" {
					script = j.vc.script(j.o)
				}
				to := timeoutS
				if j.o.ExpectSat && to > 3 {
					to = 3
				}
				out, _ := solveOne(script, to, thorough)
				j.o.Result = out.result
				j.o.Solver = out.solver
				j.o.Ms = out.ms
				j.o.Script = script
				if out.result != "unsat" {
					j.o.Model = out.output
					if !j.o.ExpectSat && !j.o.Soft {
						failMu.Lock()
						failed[j.o.Fn]++
						failMu.Unlock()
					}
				}
			}
		}()
	}
	for _, j := range jobs {
		ch <- j
	}
	close(ch)
	wg.Wait()
	// second chance: an obligation that no configuration DECIDED (timeout / unknown - never a
	// `sat` answer) in the first pass, where up to `workers` portfolios compete for the cores, is
	// tried again with four times the time and only two portfolios at once. A slow proof on a busy
	// machine is not a violation; functions with many undecided obligations (a real change that
	// havocs everything) are not retried.
	perFn := map[string]int{}
	var retry []job
	for _, j := range jobs {
		if j.o.ExpectSat || j.o.Soft || j.o.Kind == "cover" {
			continue
		}
		if j.o.Result == "timeout" || j.o.Result == "unknown" {
			perFn[j.o.Fn]++
			retry = append(retry, j)
		}
	}
	rch := make(chan job)
	var rwg sync.WaitGroup
	for w := 0; w < 2; w++ {
		rwg.Add(1)
		go func() {
			defer rwg.Done()
			for j := range rch {
				to := timeoutS * 4
				if to > 90 {
					to = 90
				}
				out, _ := solveOne(j.o.Script, to, thorough)
				if out.result == "unsat" {
					j.o.Result = out.result
					j.o.Solver = out.solver + " (second pass)"
					j.o.Ms = out.ms
					j.o.Model = ""
				}
			}
		}()
	}
	for _, j := range retry {
		if perFn[j.o.Fn] > 3 || j.o.Script == "" {
			continue
		}
		rch <- j
	}
	close(rch)
	rwg.Wait()
}

package main

import (
	"fmt"
	"go/types"
	"sort"
	"strings"

	"golang.org/x/tools/go/ssa"
)

// SType is the type of a spec value: a Go type (with its SMT sort) or a pure SMT sort.
type SType struct {
	Go   types.Type
	Sort string
	Key  *SType // for ghost maps
	Val  *SType
}

type SVal struct {
	T  Term
	Ty *SType
}

var (
	stInt   = &SType{Sort: "Int"}
	stBool  = &SType{Sort: "Bool"}
	stBytes = &SType{Sort: "Bytes"}
	stStr   = &SType{Sort: "Str"}
)

type specErr struct{ msg string }

func specFail(format string, a ...interface{}) {
	panic(specErr{fmt.Sprintf(format, a...)})
}

// SpecEnv evaluates spec expressions to SMT terms.
type SpecEnv struct {
	vc       *VC
	names    map[string]SVal
	st       *State
	old      *State
	pkg      *types.Package
	resolver func(name string) (SVal, bool)
	frame    *Frame
	oldAlloc Term
	bound    []string // SMT names of the quantified variables in scope
	resolverFirst bool          // loop invariants: source names denote current values
	inMacro       bool          // evaluating the body of a defined pure function
	inOld         bool          // inside old(): parameter names denote entry values
	quantNames    map[string]bool // spec-level names bound by quantifiers / macros (shadow source names)
}

func (e *SpecEnv) child() *SpecEnv {
	n := *e
	n.names = map[string]SVal{}
	for k, v := range e.names {
		n.names[k] = v
	}
	return &n
}

func (e *SpecEnv) goST(t types.Type) *SType {
	return &SType{Go: t, Sort: e.vc.sorts.sortOf(t)}
}

func (e *SpecEnv) evalBool(x SExpr) Term {
	v := e.eval(x)
	if v.Ty.Sort != "Bool" {
		specFail("expected bool, got %s in %s", v.Ty.Sort, x)
	}
	return v.T
}

func (e *SpecEnv) evalInt(x SExpr) Term {
	v := e.eval(x)
	if v.Ty.Sort != "Int" {
		specFail("expected int, got %s in %s", v.Ty.Sort, x)
	}
	return v.T
}

// resolveType turns spec type text into an SType.
func (vc *VC) resolveType(text string, pkg *types.Package) *SType {
	switch text {
	case "int":
		return stInt
	case "bool":
		return stBool
	case "Bytes":
		return stBytes
	case "Str":
		return stStr
	case "Iface":
		return &SType{Sort: "Iface"}
	}
	for _, s := range vc.db.Sorts {
		if s == text {
			vc.declareSpecSort(s)
			return &SType{Sort: s}
		}
	}
	if strings.HasPrefix(text, "map[") {
		// find matching ]
		d := 0
		for i := 3; i < len(text); i++ {
			if text[i] == '[' {
				d++
			} else if text[i] == ']' {
				d--
				if d == 0 {
					k := vc.resolveType(text[4:i], pkg)
					v := vc.resolveType(text[i+1:], pkg)
					return &SType{Sort: "(Array " + k.Sort + " " + v.Sort + ")", Key: k, Val: v}
				}
			}
		}
	}
	t := vc.resolveGoType(text, pkg)
	if t == nil {
		specFail("cannot resolve type %q", text)
	}
	return &SType{Go: t, Sort: vc.sorts.sortOf(t)}
}

func (vc *VC) declareSpecSort(s string) {
	vc.sorts.usort(s)
}

func (vc *VC) resolveGoType(text string, pkg *types.Package) types.Type {
	if strings.HasPrefix(text, "[]") {
		el := vc.resolveGoType(text[2:], pkg)
		if el == nil {
			return nil
		}
		return types.NewSlice(el)
	}
	if strings.HasPrefix(text, "*") {
		el := vc.resolveGoType(text[1:], pkg)
		if el == nil {
			return nil
		}
		return types.NewPointer(el)
	}
	if obj := types.Universe.Lookup(text); obj != nil {
		if tn, ok := obj.(*types.TypeName); ok {
			return tn.Type()
		}
	}
	if i := strings.LastIndex(text, "."); i >= 0 {
		pn, tn := text[:i], text[i+1:]
		var cands []*types.Package
		if pkg != nil {
			for _, imp := range pkg.Imports() {
				if imp.Name() == pn || imp.Path() == pn {
					cands = append(cands, imp)
				}
			}
		}
		if len(cands) == 0 {
			var all []*types.Package
			for _, p := range vc.prog.Prog.AllPackages() {
				if p.Pkg.Name() == pn || p.Pkg.Path() == pn || shortPkg(p.Pkg.Path()) == pn {
					all = append(all, p.Pkg)
				}
			}
			sort.Slice(all, func(i, j int) bool { return all[i].Path() < all[j].Path() })
			cands = all
		}
		for _, c := range cands {
			if obj := c.Scope().Lookup(tn); obj != nil {
				if t, ok := obj.(*types.TypeName); ok {
					return t.Type()
				}
			}
		}
		return nil
	}
	if pkg != nil {
		if obj := pkg.Scope().Lookup(text); obj != nil {
			if t, ok := obj.(*types.TypeName); ok {
				return t.Type()
			}
		}
	}
	return nil
}

func (vc *VC) pkgByRel(rel string) *types.Package {
	if rel == "" {
		return nil
	}
	path := repoMod + "/" + rel
	if rel == "." {
		path = repoMod
	}
	for _, p := range vc.prog.Prog.AllPackages() {
		if p.Pkg.Path() == path {
			return p.Pkg
		}
	}
	return nil
}

// declarePure makes sure an uninterpreted pure function is declared.
func (vc *VC) declarePure(pf *PureFunc) (params []*SType, res *SType) {
	pkg := vc.pkgByRel(pf.Pkg)
	for _, p := range pf.Params {
		params = append(params, vc.resolveType(p.Type, pkg))
	}
	res = vc.resolveType(pf.Result, pkg)
	if pf.Body == nil {
		var ss []string
		for _, p := range params {
			ss = append(ss, p.Sort)
		}
		vc.sorts.declFun(smtSym("pure:"+pf.Name), ss, res.Sort)
	}
	return
}

// emitAxioms is kept for call sites; axioms are selected lazily by finalizeAxioms.
func (vc *VC) emitAxioms() {}

// specMentions collects the pure-function names called in a spec expression.
func specMentions(x SExpr, out map[string]bool) {
	switch n := x.(type) {
	case *SUnary:
		specMentions(n.X, out)
	case *SBinary:
		specMentions(n.X, out)
		specMentions(n.Y, out)
	case *SCall:
		out[n.Fn] = true
		for _, a := range n.Args {
			specMentions(a, out)
		}
	case *SField:
		specMentions(n.X, out)
	case *SIndex:
		specMentions(n.X, out)
		specMentions(n.I, out)
	case *SSlice:
		specMentions(n.X, out)
		if n.Lo != nil {
			specMentions(n.Lo, out)
		}
		if n.Hi != nil {
			specMentions(n.Hi, out)
		}
	case *SUpdate:
		specMentions(n.X, out)
		specMentions(n.K, out)
		specMentions(n.V, out)
	case *SOld:
		specMentions(n.X, out)
	case *SQuant:
		specMentions(n.Body, out)
	case *SDeref:
		specMentions(n.X, out)
	}
}

// finalizeAxioms selects the axioms relevant to this VC: an axiom is included when it
// mentions an (uninterpreted) pure function that the VC uses; closure under the axioms'
// own mentions. Irrelevant quantified axioms only make the solvers weaker.
func (vc *VC) finalizeAxioms() {
	if vc.axiomsDone {
		return
	}
	vc.axiomsDone = true
	included := map[*Axiom]bool{}
	for changed := true; changed; {
		changed = false
		for _, ax := range vc.db.Axioms {
			if included[ax] {
				continue
			}
			m := map[string]bool{}
			specMentions(ax.Expr, m)
			rel := false
			for fn := range m {
				if pf, ok := vc.db.Pures[fn]; ok && pf.Body == nil && vc.usedPures[fn] {
					rel = true
				}
			}
			if !rel {
				continue
			}
			included[ax] = true
			changed = true
			func() {
				defer func() {
					if r := recover(); r != nil {
						if se, ok := r.(specErr); ok {
							panic(specErr{fmt.Sprintf("axiom %s (%s): %s", ax.Name, ax.File, se.msg)})
						}
						panic(r)
					}
				}()
				env := &SpecEnv{vc: vc, names: map[string]SVal{}, pkg: vc.pkgByRel(ax.Pkg)}
				t := env.evalBool(ax.Expr)
				vc.axiomDecls = append(vc.axiomDecls, "(assert "+t+")")
				vc.axiomNames = append(vc.axiomNames, ax.Name)
			}()
		}
	}
}

func (e *SpecEnv) coerce(v SVal, want *SType) Term {
	if v.Ty.Sort == want.Sort {
		return v.T
	}
	if want.Sort == "Bytes" {
		return e.toBytes(v)
	}
	specFail("cannot use %s as %s", v.Ty.Sort, want.Sort)
	return ""
}

func (e *SpecEnv) toBytes(v SVal) Term {
	if v.Ty.Sort == "Bytes" {
		return v.T
	}
	if v.Ty.Sort == "Str" {
		return "(Str_bytes " + v.T + ")"
	}
	if v.Ty.Go != nil && isByteSlice(v.Ty.Go) {
		if e.st == nil {
			specFail("bytes() needs a state")
		}
		h := e.vc.heapVar(e.vc.sorts.elemHeap(v.Ty.Go.Underlying().(*types.Slice).Elem()))
		arr, off, n := sel(e.vc.get(e.st, h), sref(v.T)), soff(v.T), slen(v.T)
		for _, b := range e.bound {
			if strings.Contains(v.T, b) {
				// the slice term mentions a quantified variable: it cannot be named by a
				// global constant; use the bseq term in place (len / index still read the array)
				t := fmt.Sprintf("(bseq %s %s %s)", arr, off, n)
				if e.vc.bseqSrc == nil {
					e.vc.bseqSrc = map[Term][3]Term{}
				}
				e.vc.bseqSrc[t] = [3]Term{arr, off, n}
				return t
			}
		}
		return e.vc.bseq(arr, off, n)
	}
	specFail("cannot convert %s to Bytes", v.Ty.Sort)
	return ""
}

func (e *SpecEnv) lookupName(name string) (SVal, bool) {
	// inside function bodies (loop invariants) a source name denotes the variable's CURRENT
	// value; old(name) denotes a parameter's value at entry
	if e.resolverFirst && !e.inOld && e.resolver != nil {
		if _, isQuant := e.quantNames[name]; !isQuant {
			if v, ok := e.resolver(name); ok {
				return v, true
			}
		}
	}
	if v, ok := e.names[name]; ok {
		return v, true
	}
	if e.resolver != nil {
		if v, ok := e.resolver(name); ok {
			return v, true
		}
	}
	if g, ok := e.vc.db.Ghosts[name]; ok {
		ty := e.vc.resolveType(g.Type, e.vc.pkgByRel(g.Pkg))
		e.vc.registerVar("g:"+name, ty.Sort)
		if e.st == nil {
			specFail("ghost %s used without a state", name)
		}
		return SVal{e.vc.get(e.st, "g:"+name), ty}, true
	}
	return SVal{}, false
}

func (e *SpecEnv) eval(x SExpr) SVal {
	vc := e.vc
	S := vc.sorts
	switch n := x.(type) {
	case *SInt:
		return SVal{n.Val, stInt}
	case *SBool:
		if n.Val {
			return SVal{"true", stBool}
		}
		return SVal{"false", stBool}
	case *SStr:
		return SVal{S.strLit(n.Val), stStr}
	case *SNil:
		specFail("nil only allowed in comparisons")
	case *SIdent:
		if v, ok := e.lookupName(n.Name); ok {
			return v
		}
		specFail("unknown name %q", n.Name)
	case *SOld:
		if e.old == nil {
			specFail("old() not available here")
		}
		c := *e
		c.st = e.old
		c.inOld = true
		return c.eval(n.X)
	case *SUnary:
		v := e.eval(n.X)
		if n.Op == "!" {
			if v.Ty.Sort != "Bool" {
				specFail("! on non-bool in %s", x)
			}
			return SVal{notT(v.T), stBool}
		}
		return SVal{"(- " + v.T + ")", stInt}
	case *SDeref:
		v := e.eval(n.X)
		pt, ok := goUnder(v.Ty).(*types.Pointer)
		if !ok {
			specFail("deref of non-pointer in %s", x)
		}
		return e.derefPtr(v.T, pt.Elem())
	case *SBinary:
		return e.evalBinary(n)
	case *SQuant:
		c := e.child()
		var binds []string
		for _, qv := range n.Vars {
			ty := vc.resolveType(qv.Type, e.pkg)
			// bound variables are named after the quantifier's source text, so that two
			// expansions of the same clause / macro are syntactically identical formulas
			// (only inside macro bodies; elsewhere names are unique)
			var name string
			if e.inMacro {
				name = smtSym(fmt.Sprintf("q_%s!%x", qv.Name, fnvHash(n.String())))
			} else {
				vc.n++
				name = smtSym(fmt.Sprintf("q_%s!%d", qv.Name, vc.n))
			}
			binds = append(binds, fmt.Sprintf("(%s %s)", name, ty.Sort))
			c.names[qv.Name] = SVal{name, ty}
			c.bound = append(append([]string{}, c.bound...), name)
			qn := map[string]bool{qv.Name: true}
			for k := range c.quantNames {
				qn[k] = true
			}
			c.quantNames = qn
		}
		body := c.evalBool(n.Body)
		q := "exists"
		if n.Forall {
			q = "forall"
		}
		if len(n.Triggers) > 0 {
			pats := ""
			for _, ts := range n.Triggers {
				var terms []string
				for _, t := range ts {
					terms = append(terms, c.eval(t).T)
				}
				pats += " :pattern (" + strings.Join(terms, " ") + ")"
			}
			body = "(! " + body + pats + ")"
		}
		return SVal{fmt.Sprintf("(%s (%s) %s)", q, strings.Join(binds, " "), body), stBool}
	case *SField:
		return e.evalField(n)
	case *SIndex:
		return e.evalIndex(n)
	case *SSlice:
		v := e.eval(n.X)
		if _, ok := goUnder(v.Ty).(*types.Slice); !ok {
			specFail("slicing non-slice in %s", x)
		}
		lo := "0"
		if n.Lo != nil {
			lo = e.evalInt(n.Lo)
		}
		hi := slen(v.T)
		if n.Hi != nil {
			hi = e.evalInt(n.Hi)
		}
		return SVal{mkSlice(sref(v.T), addT(soff(v.T), lo), subT(hi, lo), subT(scap(v.T), lo)), v.Ty}
	case *SUpdate:
		m := e.eval(n.X)
		if m.Ty.Key == nil {
			specFail("update of non-map in %s", x)
		}
		k := e.coerce(e.eval(n.K), m.Ty.Key)
		v := e.coerce(e.eval(n.V), m.Ty.Val)
		return SVal{sto(m.T, k, v), m.Ty}
	case *SCall:
		return e.evalCall(n)
	}
	specFail("cannot evaluate %s", x)
	return SVal{}
}

func goUnder(t *SType) types.Type {
	if t.Go == nil {
		return nil
	}
	return t.Go.Underlying()
}

func (e *SpecEnv) derefPtr(p Term, elem types.Type) SVal {
	vc := e.vc
	if e.st == nil {
		specFail("dereference needs a state")
	}
	if at, ok := elem.Underlying().(*types.Array); ok {
		h := vc.heapVar(vc.sorts.elemHeap(at.Elem()))
		return SVal{sel(vc.get(e.st, h), p), e.goST(elem)}
	}
	h := vc.heapVar(vc.sorts.objHeap(elem))
	val := sel(vc.get(e.st, h), p)
	if e.frame != nil && !mentionsAny(p, e.bound) && !mentionsAny(val, e.bound) {
		// representation invariant of the memory model: references stored in an object are
		// allocated - bounded by the entry allocation counter when the heap is still the entry heap
		bs := e.st
		if root := e.frame.rootFrame(); root.entry != nil && vc.get(e.st, h) == vc.get(root.entry, h) {
			bs = root.entry
		}
		named := vc.define("sload", vc.sorts.sortOf(elem), val)
		e.frame.assumeTyped(elem, named, bs)
		return SVal{named, e.goST(elem)}
	}
	return SVal{val, e.goST(elem)}
}

func (e *SpecEnv) evalField(n *SField) SVal {
	v := e.eval(n.X)
	if v.Ty.Go == nil {
		specFail("field %s of non-Go value in %s", n.Name, n)
	}
	cur := v
	// auto-deref
	if pt, ok := cur.Ty.Go.Underlying().(*types.Pointer); ok {
		cur = e.derefPtr(cur.T, pt.Elem())
	}
	obj, index, _ := types.LookupFieldOrMethod(cur.Ty.Go, true, e.pkg, n.Name)
	if obj == nil {
		// retry ignoring package visibility
		obj, index = lookupFieldAnyPkg(cur.Ty.Go, n.Name)
	}
	if _, ok := obj.(*types.Var); !ok || obj == nil {
		specFail("no field %s in %s", n.Name, cur.Ty.Go)
	}
	for _, i := range index {
		if pt, ok := cur.Ty.Go.Underlying().(*types.Pointer); ok {
			cur = e.derefPtr(cur.T, pt.Elem())
		}
		st := cur.Ty.Go.Underlying().(*types.Struct)
		cur = SVal{e.vc.sorts.fieldGet(cur.Ty.Go, i, cur.T), e.goST(st.Field(i).Type())}
	}
	return cur
}

func lookupFieldAnyPkg(t types.Type, name string) (types.Object, []int) {
	st, ok := t.Underlying().(*types.Struct)
	if !ok {
		return nil, nil
	}
	for i := 0; i < st.NumFields(); i++ {
		if st.Field(i).Name() == name {
			return st.Field(i), []int{i}
		}
	}
	for i := 0; i < st.NumFields(); i++ {
		if st.Field(i).Embedded() {
			ft := st.Field(i).Type()
			if _, isPtr := ft.Underlying().(*types.Pointer); isPtr {
				continue
			}
			if o, idx := lookupFieldAnyPkg(ft, name); o != nil {
				return o, append([]int{i}, idx...)
			}
		}
	}
	return nil, nil
}

func (e *SpecEnv) evalIndex(n *SIndex) SVal {
	vc := e.vc
	v := e.eval(n.X)
	if v.Ty.Key != nil {
		k := e.coerce(e.eval(n.I), v.Ty.Key)
		return SVal{sel(v.T, k), v.Ty.Val}
	}
	if v.Ty.Sort == "Bytes" {
		i := e.evalInt(n.I)
		if src, ok := vc.bseqSrc[v.T]; ok {
			// the Bytes value abstracts a known array segment: read the array directly when in range
			return SVal{fmt.Sprintf("(ite (and (<= 0 %s) (< %s %s)) %s (Bytes_at %s %s))", i, i, src[2], sel(src[0], sidxT(src[1], i)), v.T, i), stInt}
		}
		return SVal{fmt.Sprintf("(Bytes_at %s %s)", v.T, i), stInt}
	}
	switch u := goUnder(v.Ty).(type) {
	case *types.Slice:
		if e.st == nil {
			specFail("indexing needs a state")
		}
		i := e.evalInt(n.I)
		h := vc.heapVar(vc.sorts.elemHeap(u.Elem()))
		return SVal{sel(sel(vc.get(e.st, h), sref(v.T)), sidxT(soff(v.T), i)), e.goST(u.Elem())}
	case *types.Array:
		return SVal{sel(v.T, e.evalInt(n.I)), e.goST(u.Elem())}
	case *types.Basic:
		if v.Ty.Sort == "Str" {
			return SVal{fmt.Sprintf("(Str_at %s %s)", v.T, e.evalInt(n.I)), stInt}
		}
	case *types.Map:
		if e.st == nil {
			specFail("map lookup needs a state")
		}
		// Go semantics: the zero value when the key is absent (or the map is nil)
		dom, vals, _ := vc.sorts.mapHeaps(u)
		dh, vh := vc.heapVar(dom), vc.heapVar(vals)
		k := e.eval(n.I)
		has := andT(fmt.Sprintf("(not (= %s 0))", v.T), sel(sel(vc.get(e.st, dh), v.T), k.T))
		return SVal{fmt.Sprintf("(ite %s %s %s)", has, sel(sel(vc.get(e.st, vh), v.T), k.T), vc.sorts.zero(u.Elem())), e.goST(u.Elem())}
	}
	if v.Ty.Sort == "Str" {
		return SVal{fmt.Sprintf("(Str_at %s %s)", v.T, e.evalInt(n.I)), stInt}
	}
	specFail("cannot index %s", n)
	return SVal{}
}

func (e *SpecEnv) evalBinary(n *SBinary) SVal {
	switch n.Op {
	case "&&", "||", "==>", "<==>":
		a, b := e.evalBool(n.X), e.evalBool(n.Y)
		switch n.Op {
		case "&&":
			return SVal{andT(a, b), stBool}
		case "||":
			return SVal{orT(a, b), stBool}
		case "==>":
			return SVal{"(=> " + a + " " + b + ")", stBool}
		default:
			return SVal{"(= " + a + " " + b + ")", stBool}
		}
	case "==", "!=":
		var t Term
		_, xnil := n.X.(*SNil)
		_, ynil := n.Y.(*SNil)
		switch {
		case xnil && ynil:
			t = "true"
		case xnil || ynil:
			other := n.X
			if xnil {
				other = n.Y
			}
			v := e.eval(other)
			t = e.isNil(v, n)
		default:
			a, b := e.eval(n.X), e.eval(n.Y)
			if a.Ty.Sort != b.Ty.Sort {
				// Bytes coercion
				if a.Ty.Sort == "Bytes" || b.Ty.Sort == "Bytes" {
					t = eqT(e.toBytes(a), e.toBytes(b))
					break
				}
				specFail("comparing %s with %s in %s", a.Ty.Sort, b.Ty.Sort, n)
			}
			t = eqT(a.T, b.T)
		}
		if n.Op == "!=" {
			t = notT(t)
		}
		return SVal{t, stBool}
	case "<", "<=", ">", ">=":
		if xv := e.eval(n.X); xv.Ty.Sort == "Str" {
			// lexicographic order on strings (the same uninterpreted total order the code uses)
			yv := e.eval(n.Y)
			switch n.Op {
			case "<":
				return SVal{fmt.Sprintf("(str_lt %s %s)", xv.T, yv.T), stBool}
			case ">":
				return SVal{fmt.Sprintf("(str_lt %s %s)", yv.T, xv.T), stBool}
			case "<=":
				return SVal{fmt.Sprintf("(not (str_lt %s %s))", yv.T, xv.T), stBool}
			default:
				return SVal{fmt.Sprintf("(not (str_lt %s %s))", xv.T, yv.T), stBool}
			}
		}
		a, b := e.evalInt(n.X), e.evalInt(n.Y)
		return SVal{fmt.Sprintf("(%s %s %s)", n.Op, a, b), stBool}
	case "+", "-", "*":
		a, b := e.evalInt(n.X), e.evalInt(n.Y)
		return SVal{fmt.Sprintf("(%s %s %s)", n.Op, a, b), stInt}
	case "/":
		a, b := e.evalInt(n.X), e.evalInt(n.Y)
		return SVal{fmt.Sprintf("(div %s %s)", a, b), stInt}
	case "%":
		a, b := e.evalInt(n.X), e.evalInt(n.Y)
		return SVal{fmt.Sprintf("(mod %s %s)", a, b), stInt}
	}
	specFail("bad operator %s", n.Op)
	return SVal{}
}

func (e *SpecEnv) isNil(v SVal, n SExpr) Term {
	if v.Ty.Sort == "Iface" {
		return fmt.Sprintf("(= %s Iface_nil)", v.T)
	}
	switch goUnder(v.Ty).(type) {
	case *types.Slice:
		return fmt.Sprintf("(= (Slice_ref %s) 0)", v.T)
	case *types.Pointer, *types.Map, *types.Chan:
		return fmt.Sprintf("(= %s 0)", v.T)
	case *types.Interface:
		return fmt.Sprintf("(= %s Iface_nil)", v.T)
	case *types.Signature:
		return fmt.Sprintf("(= %s %s)", v.T, e.vc.sorts.namedConst("Func_nil", "Func"))
	}
	specFail("nil comparison on %s in %s", v.Ty.Sort, n)
	return ""
}

func (e *SpecEnv) evalCall(n *SCall) SVal {
	vc := e.vc
	arg := func(i int) SVal {
		if i >= len(n.Args) {
			specFail("too few arguments in %s", n)
		}
		return e.eval(n.Args[i])
	}
	switch n.Fn {
	case "len":
		v := arg(0)
		switch u := goUnder(v.Ty).(type) {
		case *types.Slice:
			return SVal{slen(v.T), stInt}
		case *types.Array:
			return SVal{fmt.Sprint(u.Len()), stInt}
		case *types.Map:
			_, _, card := vc.sorts.mapHeaps(u)
			ch := vc.heapVar(card)
			return SVal{sel(vc.get(e.st, ch), v.T), stInt}
		}
		if v.Ty.Sort == "Str" {
			return SVal{"(Str_len " + v.T + ")", stInt}
		}
		if v.Ty.Sort == "Bytes" {
			if src, ok := vc.bseqSrc[v.T]; ok {
				return SVal{src[2], stInt}
			}
			return SVal{"(Bytes_len " + v.T + ")", stInt}
		}
		specFail("len of %s", v.Ty.Sort)
	case "cap":
		v := arg(0)
		return SVal{scap(v.T), stInt}
	case "bytes":
		return SVal{e.toBytes(arg(0)), stBytes}
	case "str":
		v := arg(0)
		if v.Ty.Sort == "Str" {
			return v
		}
		return SVal{"(Str_of " + e.toBytes(v) + ")", stStr}
	case "ite":
		c := e.evalBool(n.Args[0])
		a, b := arg(1), arg(2)
		if a.Ty.Sort != b.Ty.Sort {
			specFail("ite branches differ in %s", n)
		}
		return SVal{fmt.Sprintf("(ite %s %s %s)", c, a.T, b.T), a.Ty}
	case "min", "max":
		a, b := e.evalInt(n.Args[0]), e.evalInt(n.Args[1])
		if n.Fn == "min" {
			return SVal{fmt.Sprintf("(ite (<= %s %s) %s %s)", a, b, a, b), stInt}
		}
		return SVal{fmt.Sprintf("(ite (>= %s %s) %s %s)", a, b, a, b), stInt}
	case "abs":
		a := e.evalInt(n.Args[0])
		return SVal{fmt.Sprintf("(ite (>= %s 0) %s (- %s))", a, a, a), stInt}
	case "fresh":
		// the reference of a slice/pointer was allocated after function entry
		v := arg(0)
		if e.oldAlloc == "" {
			specFail("fresh() not available here")
		}
		switch goUnder(v.Ty).(type) {
		case *types.Slice:
			return SVal{fmt.Sprintf("(> (Slice_ref %s) %s)", v.T, e.oldAlloc), stBool}
		case *types.Pointer, *types.Map:
			return SVal{fmt.Sprintf("(> %s %s)", v.T, e.oldAlloc), stBool}
		}
		specFail("fresh of %s", v.Ty.Sort)
	case "ref":
		v := arg(0)
		if _, ok := goUnder(v.Ty).(*types.Slice); ok {
			return SVal{sref(v.T), stInt}
		}
		return SVal{v.T, stInt}
	case "off":
		return SVal{soff(arg(0).T), stInt}
	case "has":
		// has(m, k): key k present in Go map m
		m := arg(0)
		u, ok := goUnder(m.Ty).(*types.Map)
		if !ok {
			specFail("has() on non-map")
		}
		dom, _, _ := vc.sorts.mapHeaps(u)
		dh := vc.heapVar(dom)
		k := arg(1)
		return SVal{andT(fmt.Sprintf("(not (= %s 0))", m.T), sel(sel(vc.get(e.st, dh), m.T), k.T)), stBool}
	case "frame_elems":
		// frame_elems(s): every backing array other than s's is as it was at function entry
		v := arg(0)
		sl, ok := goUnder(v.Ty).(*types.Slice)
		if !ok || e.old == nil || e.st == nil {
			specFail("frame_elems(slice) not available here")
		}
		h := vc.heapVar(vc.sorts.elemHeap(sl.Elem()))
		return SVal{fmt.Sprintf("(forall ((r Int)) (! (=> (not (= r %s)) (= (select %s r) (select %s r))) :pattern ((select %s r))))",
			sref(v.T), vc.get(e.st, h), vc.get(e.old, h), vc.get(e.st, h)), stBool}
	case "frame_old_elems":
		// frame_old_elems(s): every backing array (of s's element type) that existed at function
		// entry is as it was at entry - the code has only written into arrays it allocated itself
		v := arg(0)
		sl, ok := goUnder(v.Ty).(*types.Slice)
		if !ok || e.old == nil || e.st == nil || e.oldAlloc == "" {
			specFail("frame_old_elems(slice) not available here")
		}
		h := vc.heapVar(vc.sorts.elemHeap(sl.Elem()))
		return SVal{fmt.Sprintf("(forall ((r Int)) (! (=> (<= r %s) (= (select %s r) (select %s r))) :pattern ((select %s r))))",
			e.oldAlloc, vc.get(e.st, h), vc.get(e.old, h), vc.get(e.st, h)), stBool}
	case "isold":
		// isold(p): reference p existed when the function was entered (or the call was made)
		if e.oldAlloc == "" {
			specFail("isold() not available here")
		}
		return SVal{fmt.Sprintf("(<= %s %s)", arg(0).T, e.oldAlloc), stBool}
	case "global":
		// global(name): current value of the package-level variable `name` of the contract's package
		id, ok := n.Args[0].(*SIdent)
		gpkg := e.pkg
		if !ok {
			// global(pkg.Name)
			if fe, isF := n.Args[0].(*SField); isF {
				if pi, isI := fe.X.(*SIdent); isI && e.pkg != nil {
					for _, imp := range e.pkg.Imports() {
						if imp.Name() == pi.Name {
							// several imports can share a declared name (sdk "types" vs the module's own "types"):
							// take the one that declares the variable
							if sp := vc.prog.Prog.Package(imp); sp != nil {
								if _, isG := sp.Members[fe.Name].(*ssa.Global); !isG && ok {
									continue
								}
							}
							gpkg = imp
							id, ok = &SIdent{fe.Name}, true
						}
					}
				}
			}
		}
		if !ok || gpkg == nil || e.frame == nil || e.st == nil {
			specFail("global(name) not available here")
		}
		sp := vc.prog.Prog.Package(gpkg)
		if sp == nil {
			specFail("global: package not loaded")
		}
		g, ok := sp.Members[id.Name].(*ssa.Global)
		if !ok {
			specFail("global: no package-level variable %s", id.Name)
		}
		elT := g.Type().Underlying().(*types.Pointer).Elem()
		l := &Loc{kind: locObj, ref: vc.globalRef(g), rootT: elT}
		val := vc.define("gval", vc.sorts.sortOf(elT), e.frame.load(l, e.st))
		e.frame.assumeTyped(elT, val, e.frame.boundState(l, e.st))
		vc.applyGlobalSpecs(e.frame, g, val, e.st)
		return SVal{val, e.goST(elT)}
	case "iface":
		// iface(x): the interface value holding Go value x (dynamic type = static type of x)
		v := arg(0)
		if v.Ty.Go == nil {
			specFail("iface() of non-Go value")
		}
		if _, isIface := v.Ty.Go.Underlying().(*types.Interface); isIface {
			return SVal{v.T, &SType{Sort: "Iface"}}
		}
		box, _ := vc.sorts.boxFn(v.Ty.Go)
		return SVal{fmt.Sprintf("(%s %s)", box, v.T), &SType{Sort: "Iface"}}
	case "tag":
		return SVal{"(Iface_tag " + arg(0).T + ")", stInt}
	case "dyn":
		// dyn(i, T): the value of dynamic type T held by interface i
		if len(n.Args) != 2 {
			specFail("dyn(i, T)")
		}
		id, ok := n.Args[1].(*SIdent)
		tyText := ""
		if ok {
			tyText = id.Name
		} else if f, ok := n.Args[1].(*SField); ok {
			tyText = f.X.String() + "." + f.Name
		} else if d, ok := n.Args[1].(*SDeref); ok {
			tyText = "*" + d.X.String()
		}
		if tyText == "" {
			tyText = typeText(n.Args[1].String())
		}
		t := vc.resolveGoType(tyText, e.pkg)
		if t == nil {
			specFail("dyn: unknown type %s", tyText)
		}
		_, unbox := vc.sorts.boxFn(t)
		return SVal{fmt.Sprintf("(%s %s)", unbox, arg(0).T), e.goST(t)}
	case "isdyn":
		id := typeText(n.Args[1].String())
		t := vc.resolveGoType(id, e.pkg)
		if t == nil {
			specFail("isdyn: unknown type %s", id)
		}
		vc.sorts.boxFn(t)
		return SVal{fmt.Sprintf("(= (Iface_tag %s) %d)", arg(0).T, vc.sorts.tagOf(t)), stBool}
	case "ispow2":
		// power-of-two predicate: defined (one bit set) in bit-vector mode, uninterpreted here;
		// integer-mode facts about it come from axioms
		if len(n.Args) != 1 {
			specFail("ispow2(x)")
		}
		fn := smtSym("bitop:ispow2")
		vc.sorts.declFun(fn, []string{"Int"}, "Bool")
		return SVal{fmt.Sprintf("(%s %s)", fn, e.evalInt(n.Args[0])), stBool}
	case "bvand", "bvor", "bvxor", "shl", "shr":
		// bit operations in integer mode: uninterpreted (their meaning is only available in
		// bit-vector mode; here they let callers repeat what a bit-vector contract established)
		if len(n.Args) != 2 {
			specFail("%s(a, b)", n.Fn)
		}
		fn := smtSym("bitop:" + n.Fn)
		vc.sorts.declFun(fn, []string{"Int", "Int"}, "Int")
		return SVal{fmt.Sprintf("(%s %s %s)", fn, e.evalInt(n.Args[0]), e.evalInt(n.Args[1])), stInt}
	case "implements":
		// implements(i, I): the dynamic type of interface value i implements interface type I
		// (the predicate a comma-ok type assertion to I tests)
		id := typeText(n.Args[1].String())
		t := vc.resolveGoType(id, e.pkg)
		if t == nil {
			specFail("implements: unknown type %s", id)
		}
		fn := smtSym("implements:" + typeKey(t))
		vc.sorts.declFun(fn, []string{"Int"}, "Bool")
		return SVal{fmt.Sprintf("(and (not (= %s Iface_nil)) (%s (Iface_tag %s)))", arg(0).T, fn, arg(0).T), stBool}
	case "go_div":
		return SVal{vc.goDiv(e.evalInt(n.Args[0]), e.evalInt(n.Args[1])), stInt}
	case "go_mod":
		return SVal{vc.goMod(e.evalInt(n.Args[0]), e.evalInt(n.Args[1])), stInt}
	}
	if pf, ok := vc.db.Pures[n.Fn]; ok {
		vc.usedPures[n.Fn] = true
		params, res := vc.declarePure(pf)
		if len(params) != len(n.Args) {
			specFail("wrong number of arguments to %s", n.Fn)
		}
		if pf.Body == nil {
			var as []string
			for i, p := range params {
				as = append(as, e.coerce(arg(i), p))
			}
			if len(as) == 0 {
				return SVal{smtSym("pure:" + pf.Name), res}
			}
			return SVal{fmt.Sprintf("(%s %s)", smtSym("pure:"+pf.Name), strings.Join(as, " ")), res}
		}
		c := e.child()
		c.pkg = vc.pkgByRel(pf.Pkg)
		c.resolver = nil
		c.inMacro = true
		for i, p := range params {
			a := arg(i)
			c.names[pf.Params[i].Name] = SVal{e.coerce(a, p), p}
		}
		r := c.eval(pf.Body)
		if r.Ty.Sort != res.Sort {
			specFail("pure %s: body has sort %s, declared %s", pf.Name, r.Ty.Sort, res.Sort)
		}
		return SVal{r.T, res}
	}
	specFail("unknown function %s", n.Fn)
	return SVal{}
}

// ---- environments for contracts ------------------------------------------------

// paramNames returns the names under which a callee's contract refers to its parameters.
func paramNames(fn *ssa.Function, sig *types.Signature, c *Contract, invoke bool) []string {
	if c != nil && len(c.Params) > 0 {
		return c.Params
	}
	var out []string
	if fn != nil && len(fn.Params) > 0 {
		for _, p := range fn.Params {
			out = append(out, p.Name())
		}
		return out
	}
	if sig.Recv() != nil || invoke {
		n := "self"
		if sig.Recv() != nil && sig.Recv().Name() != "" && sig.Recv().Name() != "_" {
			n = sig.Recv().Name()
		}
		out = append(out, n)
	}
	for i := 0; i < sig.Params().Len(); i++ {
		n := sig.Params().At(i).Name()
		if n == "" || n == "_" {
			n = fmt.Sprintf("p%d", i)
		}
		out = append(out, n)
	}
	return out
}

func resultNames(sig *types.Signature) []string {
	var out []string
	for i := 0; i < sig.Results().Len(); i++ {
		n := sig.Results().At(i).Name()
		if n == "" || n == "_" {
			n = fmt.Sprintf("result%d", i)
		}
		out = append(out, n)
	}
	return out
}

// typeText undoes the expression parser's reading of a slash-separated package path as
// divisions: "((x / pocketcore) / types.RelayProof)" -> "x/pocketcore/types.RelayProof"
func typeText(s string) string {
	return strings.NewReplacer("(", "", ")", "", " ", "").Replace(s)
}

func mentionsAny(t Term, names []string) bool {
	for _, n := range names {
		if strings.Contains(t, n) {
			return true
		}
	}
	return false
}

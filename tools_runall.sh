#!/bin/bash
# runs every claimed check (quick tier) and prints a one-line summary each; exit 1 if any fails
cd /verif
fail=0
for p in $(python3 -c "import json; print(' '.join(c['property_id'] for c in json.load(open('/verif/MANIFEST.json'))['checks']))"); do
  out=$(./bin/govc check --property $p 2>&1); code=$?
  echo "$(echo "$out" | tail -1)  exit=$code"
  if [ $code -ne 0 ]; then fail=1; echo "$out" | grep -v "^KNOWN-FINDING" | head -5; fi
done
exit $fail

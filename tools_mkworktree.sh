#!/bin/bash
# usage: tools_mkworktree.sh <name>   -> creates /tmp/wt_<name>: a scratch worktree of /repo HEAD with the
# verif contract files removed (committed on a detached HEAD there, never in /repo's branch), and /tmp/wt_<name>_out
set -e
n=$1; wt=/tmp/wt_$n
git -C /repo worktree remove --force $wt 2>/dev/null || true
git -C /repo worktree add -q --detach $wt HEAD
cd $wt
find . -name zz_verif_contracts.go -delete
git -c user.name=scratch -c user.email=s@x commit -q -am "scratch base (contract files removed)" 
mkdir -p /tmp/wt_${n}_out
echo $wt

#!/bin/bash
# usage: tools_seed.sh <seed-id> <property> <source-dir>
# Confirms a seeded change (demo passes without it, fails with it, package builds) in a scratch worktree,
# stores it under /verif/seeded/<seed-id>/ and runs the property's check against /repo with the change applied.
set -u
id=$1; prop=$2; src=$3
if [ -n "$(git -C /repo status --porcelain)" ]; then echo "REFUSING: /repo has uncommitted changes (the script runs git checkout -- . on it)"; exit 3; fi
export GOFLAGS=-mod=mod GOPROXY=off GOSUMDB=off GOTOOLCHAIN=local
dst=/verif/seeded/$id
mkdir -p $dst
cp $src/patch.diff $dst/patch.diff
cp $src/zz_demo_test.go $dst/zz_demo_test.go
demo=$(cat $src/DEMO_PATH.txt | tr -d '[:space:]')
cp $src/notes.md $dst/notes.md 2>/dev/null
wt=/tmp/seedwt_$id
git -C /repo worktree remove --force $wt 2>/dev/null
git -C /repo worktree add -q $wt HEAD
pkg=./$(dirname $demo)
cp $dst/zz_demo_test.go $wt/$demo
tests=$(grep -o '^func Test[A-Za-z0-9_]*' $dst/zz_demo_test.go | sed 's/func //' | paste -sd'|')
(cd $wt && go test -v -vet=off -count=1 -timeout 600s -run "^($tests)\$" $pkg > /tmp/seed_$id.base.log 2>&1); base=$?
if grep -q -- "^--- FAIL\|^    --- FAIL" /tmp/seed_$id.base.log; then base=1; fi
(cd $wt && git apply $dst/patch.diff) || { echo "patch does not apply to HEAD"; }
(cd $wt && go build ./... > /tmp/seed_$id.build.log 2>&1); build=$?
(cd $wt && go test -v -vet=off -count=1 -timeout 600s -run "^($tests)\$" $pkg > /tmp/seed_$id.mut.log 2>&1); mut=$?
if grep -q -- "^--- FAIL\|^    --- FAIL" /tmp/seed_$id.mut.log; then mut=1; fi
git -C /repo worktree remove --force $wt
echo "demo on unchanged: exit=$base (want 0); build with change: exit=$build (want 0); demo with change: exit=$mut (want non-zero)"
# run our check with the change applied to /repo, then undo
git -C /repo apply $dst/patch.diff
(cd /verif && GOVC_OUT=/tmp/seedout_$id ./bin/govc check --property $prop > /tmp/seed_$id.check.log 2>&1); chk=$?
git -C /repo checkout -- .
grep -c VIOLATION /tmp/seed_$id.check.log
grep VIOLATION /tmp/seed_$id.check.log | sed 's/replay=[^ ]* //' | head -5
echo "check exit=$chk"
python3 - "$id" "$prop" "$base" "$build" "$mut" "$chk" "$demo" <<'PY'
import json,sys,re
id,prop,base,build,mut,chk,demo=sys.argv[1:]
v=[l.strip() for l in open('/tmp/seed_%s.check.log'%id) if l.startswith('VIOLATION')]
meta={"seed":id,"property":prop,"demo_test_path":demo,
 "confirmed":{"demo_passes_on_unchanged_tree":base=="0","builds_with_change":build=="0","demo_fails_with_change":mut!="0"},
 "ran":["go test -run <demo> on a scratch worktree of /repo HEAD (unchanged)","git apply patch.diff; go build ./...; go test -run <demo>","git -C /repo apply patch.diff; ./bin/govc check --property %s; git -C /repo checkout -- ."%prop],
 "check_exit":int(chk),"detected":chk=="1","violations":[re.sub(r'replay=\S+ ','',x) for x in v][:6],
 "needs_to_manifest":"see notes.md"}
json.dump(meta,open('/verif/seeded/%s/meta.json'%id,'w'),indent=1)
PY
rm -rf /tmp/seedout_$id

#!/usr/bin/env python3
"""Regenerates /verif/seeded/README.md from the meta.json files of the seeded changes."""
import json, glob, os
rows=[]
for d in sorted(glob.glob('/verif/seeded/*/')):
    mp=os.path.join(d,'meta.json')
    if not os.path.exists(mp): continue
    m=json.load(open(mp))
    notes=''
    np=os.path.join(d,'notes.md')
    if os.path.exists(np):
        for l in open(np):
            l=l.strip()
            if l and not l.startswith('#'):
                notes=l[:160]; break
    c=m.get('confirmed',{})
    conf='yes' if all(c.values()) else 'partly: '+', '.join(k for k,v in c.items() if not v)
    det='**detected**' if m.get('detected') else 'missed'
    obl=''
    if m.get('violations'):
        obl=m['violations'][0].split('obligation=')[-1].split(' ')[0]
    if m.get('detected_after'):
        det='**detected** (after strengthening: %s)' % m['detected_after']
        obl=m.get('detected_by', obl)
    rows.append((m['seed'], m['property'], conf, det, obl, notes))
with open('/verif/seeded/README.md','w') as f:
    f.write('# Independently seeded changes\n\nEach directory holds `patch.diff` (the change), `zz_demo_test.go` (+ `DEMO_PATH.txt`: where it goes), `notes.md` (the author\'s description: what the change is, what it needs in order to manifest) and `meta.json` (what was run here: the demonstration on the unchanged tree and with the change in a scratch worktree, the build, then the property\'s check with the change applied to /repo and undone straight afterwards).\n\n')
    f.write('| seed | property | confirmed (demo passes without / fails with, builds) | verdict of the check | first obligation reported | change (first line of notes) |\n|---|---|---|---|---|---|\n')
    for r in rows: f.write('| %s | %s | %s | %s | `%s` | %s |\n' % r)
    n=len(rows); d=sum(1 for r in rows if 'detected' in r[3])
    f.write('\n%d seeded changes, %d detected.\n' % (n,d))
print(len(rows),'seeds')
